#!/usr/bin/env python3
"""Translate the methods of the two composition containers, src/composition_list.rs (`ChemicalCompositionVec`) and
src/composition_map.rs (`ChemicalCompositionMap`), into a SHALLOW embedding in Gallina -> coq/gen/CompGen.v.
coq/proofs/CompTie.v then proves that the hand-written model (coq/model/Comp.v: e_get / e_set / e_inc / calc_mass,
coq/model/CompOps.v: the register machine `apply`, c_mass, c_fmass, coq/model/ESpec.v: v_find_str / v_index_str /
m_get_str / m_index_str / plain_key) computes exactly what this translation computes.

The vocabulary is that of coq/model/ImpC.v.  A container is `ccomp F` (fields composition : list (espec * Z),
mass_cache : option F); `Vec` operations are list operations; the `HashMap` operations are emitted as the model's OWN
association-list operations (hm_get / hm_insert / hm_or_insert / hm_get_mut, defined from e_mem / e_get / e_set through
ImpE.spec_key, with the permutation oracle `shuffle` where an insertion may rehash): the translation ties the CONTROL
STRUCTURE around them (cache invalidation, which key is used, the order of get and set, the None / error / panic
paths), not the HashMap.  Functions of src/element_specification.rs are called as the definitions of gen/ESpecGen.v.

Every function is translated INDEPENDENTLY: a function whose body is outside the subset is skipped (`skipped <name>:
<construct>` on stdout, its name in `comp_gen_skipped` in CompGen.v), and so is a function that calls a skipped one
(including one that gen_espec.py skipped).  Only a broken FILE STRUCTURE (unbalanced brackets, no struct
ChemicalCompositionVec / ChemicalCompositionMap with the fields `composition: Vec<(ElementSpecification, i32)>` /
`HashMap<ElementSpecification, i32, ..>` and `mass_cache: Option<f64>`, no inherent impl) makes the translator exit 3.

  python3 tools/gen_comp.py            regenerate coq/gen/CompGen.v (rewritten only when its content changes)
  python3 tools/gen_comp.py --ties     additionally compile coq/proofs/CompTie.v block by block (a block = the lemmas of
                                       one function, between `(* BEGIN TIE f (needs: ...) *)` and `(* END TIE f *)`) and
                                       print `tie <f>: OK | FAILED | SKIPPED` for every function
  python3 tools/gen_comp.py --ties --field   the same in FIELD MODE (tools/tie_modes.py, coq/model/TieTac.v): the ties are
                                       compiled with `OF : OField N` in context and `leaf := leaf_field`
  --only=a,b                           (with --ties) only the named functions (v_calc_mass, m_fmass, ...)

FUNCTIONS (generated name <- source; prefix v_ for composition_list.rs, m_ for composition_map.rs)
  new find find_str get_str get set inc iter iter_mut get_ref into_inner calc_mass mass fmass has_mass_cached
  add_from sub_from mul_by len is_empty plain_key get_str_mut inc_str
                                   <- the inherent impls (a leading `_` of the source name is dropped)
  index / index_mut                <- impl Index / IndexMut<&ElementSpecification>
  index_str / index_mut_str        <- impl Index / IndexMut<&str>
NOT attempted: `get_mut` of the list form (returns `&mut [..]`), PartialEq::eq, FromIterator, From, FromStr, Display,
and everything the macros of src/props.rs generate.
Every generated definition takes {F} (N : Num F) (PERIODIC_TABLE : ptable) (uni_alphabetic : char -> bool) first, the
definitions of the map form additionally (shuffle : sents -> sents).

TRANSLATION (state-passing; effects are sequenced in evaluation order; Gallina shadowing = the new value)
  i32 -> Z (as in the model: no overflow), usize -> nat, u16 -> N, f64 -> F over `Num`, bool, &str -> str,
  ElementSpecification -> ImpE.espec, &Element -> elem, Option<T> -> option T, (A, B) -> A * B, Vec<T> / &[T] / Iter<T>
  -> list T, HashMap<ElementSpecification, i32, _> -> sents, Self / ChemicalCompositionVec / ..Map -> ccomp F,
  Result<ElementSpecification, _> of parse -> eres espec, `&mut i32` (returned or bound) -> a PLACE (nat / espec), IterMut
  -> unit (all entries of self).  Shared references are erased.
  * a function `(&self | no self) -> T` has type `pres T`, a function `(&mut self) -> T` has type `ccomp F * pres T`:
    the container as the call leaves it, also when it panics.
  * `let pat = e;` -> let pat := e in;  `x = e;` `x op= e;` (x a `let mut` local) -> let x := .. in
  * `self.mass_cache = e;` / `self.composition.push(e);` / `self.composition.insert(k, v);` / `self.composition[i].1 = e;`
                                            -> let self := mkCC .. .. in   (push: ++ [e]; insert: hm_insert shuffle;
                                               index store: vec_upd i (fun p => (fst p, e)), None = the panic)
  * `*p op= e;` (p a PLACE)                 -> let self := v_place_upd / m_place_upd (fun t => t op e) p self in
  * `IT.for_each(|(_, v)| *v op= e)` (IT = self.composition.iter_mut() | self.iter_mut())
                                            -> let self := mkCC (for_mut (fun '(k, v) => (k, v op e)) (composition self)) .. in
  * `for pat in IT { body }`                -> match for_each_p IT (fun pat st => body .. inl st) st with inl st => rest
                                               | inr st => <panic> end      (st: self if `&mut self`, and the `let mut` locals)
  * a call of a function of this file       -> match f_gen .. with PPanic => <panic> | POk t => .. end; of a `&mut self`
                                               function (only as a whole statement / initialiser / scrutinee, on self):
                                               let '(self, r) := f_gen .. self .. in match r with ...
  * `o.unwrap()`, `r.unwrap()`, `v[i]`, `m[&k]` (Element.isotopes), usize `a - b`, `panic!(..)`
                                            -> match .. with None => <panic> | Some t => .. end  etc.
    <panic> = PPanic | (self, PPanic) | inr st (inside a loop)
  * `e?` on an Option in a function returning Option -> match e with None => <return None> | Some t => .. end
  * `match` / `if let` / `if` as a statement, the value of a `let`, of a block or of an assignment, or anywhere in an
    expression when a branch has an effect -> match / if, the rest of the block as continuation: inlined when at most one
    branch continues or the rest is the function's result, else a join point `let k_n := fun <mutable state> v => rest`
  * `S { ..Default::default() }` -> mkCC [] None (the struct must derive Default)
  * 0.0 -> zero N, 1.0 -> one N, `x as f64` (x: i32) -> of_Z N x, a.mul_add(b, c) -> fma N a b c, `+ - * /` on f64 ->
    add / sub / mul / div N; e.most_abundant_mass -> of_dec N (mam e) 6, i.mass -> of_dec N (mass i) 6 (the model's
    reading of the table's f64 fields), e.isotopes -> isos e, x.element / x.isotope -> sp_element / sp_isotope,
    `a == b` on ElementSpecification -> eq_gen, on ElementSpecification and &str -> eq_str_gen (ESpecGen.v),
    s.parse::<ElementSpecification>() -> from_str_gen, ElementSpecification::parse / new / quick_check_str -> .._gen,
    PERIODIC_TABLE.get(s) -> tbl_find s PERIODIC_TABLE, o.map(|x| e) -> option_map, o.copied() -> o, o.unwrap_or(d),
    o.is_some() / is_none(), v.iter() / &v -> v, it.enumerate() -> enumerate it, it.find(p) -> find p it, it.position(p)
    -> position p it, it.all / any -> forallb / existsb, v.len() -> length v, v.is_empty(), v.get(i) -> nth_error v i,
    v.get_mut(i) -> vec_get_mut i v, m.get(&k) -> hm_get, m.get_mut(&k) -> hm_get_mut, m.contains_key(&k), m.entry(k)
    followed by `.or_insert(d)` -> hm_or_insert shuffle k d, `const NAME: i32 = <literal>` of the file -> the literal.

GRAMMAR of a function (comments are skipped; lifetimes are dropped)
  fn      := attr* vis? 'fn' name '(' params ')' ['->' type] block
  params  := ['&' life? 'mut'?] 'self' | name ':' type, separated by ','
  type    := '&' life? 'mut'? type | '(' type (',' type)* ')' | '[' type ']' | path ['<' (type|life) (',' ..)* '>']
  block   := '{' stmt* [expr] '}'
  stmt    := 'let' pat [':' type] '=' expr ';' | place ('='|'+='|'-='|'*=') expr [';'] | expr ';' | 'return' [expr] ';'
           | 'for' pat 'in' expr block | 'if' .. | 'if' 'let' .. | 'match' ..
  pat     := 'mut'? name | '_' | '(' pat (',' pat)* ')' | 'None' | ('Some'|'Ok'|'Err') '(' pat ')' | path
  expr    := or        or := and ('||' and)*      and := cmp ('&&' cmp)*     cmp := add [cmpop add]
  add     := mul (('+'|'-') mul)*    mul := cast (('*'|'/') cast)*    cast := unary ('as' type)*
  unary   := ('!'|'-'|'*'|'&' 'mut'?) unary | postfix
  postfix := primary ( '.' name ['::' '<' type '>'] ['(' args ')'] | '.' int | '[' expr ']' | '?' )*
  primary := int | float | char | string | 'true' | 'false' | name | path | path '(' args ')' | '(' expr (',' expr)* ')'
           | name '{' (field ',')* ['..' expr] '}' | '|' pat '|' (expr | block) | 'match' expr '{' arm* '}'
           | 'if' expr block ['else' (block|if)] | 'if' 'let' pat '=' expr block ['else' (block|if)] | block
           | 'return' [expr] | name '!' '(' tokens ')'
  arm     := pat '=>' (expr ',' | block ','?)
Typing is checked.  `while` / `loop` / `break` / `continue`, nested loops, `return` inside a loop, match guards, a
`&mut self` call inside a larger expression, an effect in a closure or in the right operand of `&&` / `||`, reference
patterns, shifts, usize arithmetic other than the checked `a - b`, and every other construct are refused (the function
is skipped)."""
import os, re, subprocess, sys, tempfile
sys.path.insert(0, os.path.dirname(os.path.abspath(__file__)))
from gen_src import Refuse
from gen_poisson import ind, strip, atom
import gen_espec
from gen_espec import Structure, is_op, split_items, drop_vis, skip_angle, impl_header, fields_of, unescape

REPO = os.environ.get("VERIF_REPO", "/repo")
COQ = os.path.join(os.path.dirname(os.path.dirname(os.path.abspath(__file__))), "coq")
OUT = os.path.join(COQ, "gen", "CompGen.v")
TIE = os.path.join(COQ, "proofs", "CompTie.v")
SPEC, LIKE = "ElementSpecification", "ElementSpecificationLike"
FILES = [("v", "composition_list.rs", "ChemicalCompositionVec"), ("m", "composition_map.rs", "ChemicalCompositionMap")]
INHERENT = ["new", "find", "find_str", "get_str", "get", "set", "inc", "iter", "iter_mut", "get_ref", "into_inner",
            "calc_mass", "mass", "fmass", "has_mass_cached", "add_from", "sub_from", "mul_by", "len", "is_empty",
            "plain_key", "get_str_mut", "inc_str"]
TRAITS = ["index", "index_mut", "index_str", "index_mut_str"]
NOT_ATTEMPTED = {"v": ["get_mut"], "m": []}

RESERVED = set("""N F Z nat bool list option str char string String ptable elem espec key eres like pres sents ents ccomp comp
 nil cons app fst snd pair negb andb orb true false Some None EOk EErr EPanic POk PPanic LikeYes LikeNo LikeMaybe tt unit
 inl inr fun let in if then else match with end forall exists fix cofix as at return Type Prop Set where struct using
 Definition Section Context End tbl_find assoc_get isos iso sym mai mam mass ab neutrons shift number sp_element
 sp_isotope mkSpec spec_key composition mass_cache mkCC comp_of keys_of find position enumerate for_each_p for_each for_mut
 vec_upd upd_nth vec_get_mut nth_error length hm_get hm_insert hm_or_insert hm_get_mut hm_contains_key s_set s_upd
 v_place_upd m_place_upd unwrap_or option_map forallb existsb map fma of_Z of_dec zero one add sub mul div opp abs ltb
 leb eqb Nat PERIODIC_TABLE uni_alphabetic shuffle rev id e_get e_set e_mem e_inc e_pos""".split())


# ------------------------------------------------------------------ tokens
TOK = re.compile(r"""\s*(?:(//[^\n]*|/\*.*?\*/)
 |(\d[\d_]*\.\d[\d_]*(?:[eE][+-]?\d+)?(?:_?f64)?)
 |(\d[\d_]*(?:[iu](?:8|16|32|64|128|size))?)
 |"((?:[^"\\]|\\.)*)"
 |'((?:\\x[0-9a-fA-F]{2}|\\u\{[0-9a-fA-F]+\}|\\.|[^'\\]))'
 |'([A-Za-z_][A-Za-z0-9_]*)
 |([A-Za-z_][A-Za-z0-9_]*)
 |(->|=>|\.\.=|\.\.|::|==|!=|<=|>=|&&|\|\||\+=|-=|\*=|/=|%=|[-+*/%()=;:,.{}<>&!\[\]\#|?^@$~]))""", re.S | re.X)


def tokens(src):
    pos, out = 0, []
    while pos < len(src):
        if src[pos:].strip() == "":
            break
        m = TOK.match(src, pos)
        if not m:
            raise Structure("cannot tokenize at: %r" % src[pos:pos + 30])
        pos = m.end()
        if m.group(1) is not None:
            continue
        for kind, g in (("float", 2), ("int", 3), ("str", 4), ("char", 5), ("life", 6), ("id", 7), ("op", 8)):
            if m.group(g) is not None:
                out.append((kind, m.group(g)))
                break
    return out


# ------------------------------------------------------------------ parsing a function to an AST (tuples)
CMP = ("==", "!=", "<", "<=", ">", ">=")
ASSIGN = ("=", "+=", "-=", "*=", "/=", "%=")
KEYWORDS = ("loop", "while", "unsafe", "move", "break", "continue", "let", "mut", "as", "fn", "else", "in", "impl",
            "struct", "enum", "use", "mod", "dyn", "ref", "static", "const", "where", "type", "trait", "for")


class Parser:
    def __init__(self, toks):
        self.t, self.i = toks, 0

    def peek(self, k=0):
        return self.t[self.i + k] if self.i + k < len(self.t) else ("eof", "<end>")

    def at(self, *vs):
        return all(self.peek(k)[0] in ("op", "id") and self.peek(k)[1] == v for k, v in enumerate(vs))

    def context(self):
        return " ".join(v for _, v in self.t[max(0, self.i - 4):self.i + 6])

    def take(self, val=None, kind=None):
        k, v = self.peek()
        if (val is not None and (v != val or k not in ("op", "id"))) or (kind is not None and k != kind):
            raise Refuse("expected %s, found %r near `%s`" % (val or kind, v, self.context()))
        self.i += 1
        return v

    def end(self):
        if self.peek()[0] != "eof":
            raise Refuse("unexpected %r near `%s`" % (self.peek()[1], self.context()))

    # ---- types: `&T` is flattened to T, `&mut T` kept as ("mutref", T)
    def type_(self):
        if self.at("&"):
            self.take()
            if self.peek()[0] == "life":
                self.take()
            if self.at("mut"):
                self.take()
                return ("mutref", self.type_())
            return self.type_()
        if self.at("["):
            self.take()
            t = self.type_()
            if self.at(";"):
                raise Refuse("array type")
            self.take("]")
            return ("path", ["[]"], [t])
        if self.at("("):
            self.take()
            if self.at(")"):
                self.take()
                return ("path", ["()"], [])
            parts = [self.type_()]
            while self.at(","):
                self.take()
                if self.at(")"):
                    break
                parts.append(self.type_())
            self.take(")")
            return ("tuple", parts) if len(parts) > 1 else parts[0]
        if self.at("impl") or self.at("dyn"):
            raise Refuse("`impl` / `dyn` type")
        segs = [self.take(kind="id")]
        while self.at("::") and self.peek(1)[0] == "id":
            self.take(); segs.append(self.take(kind="id"))
        args = []
        if self.at("<"):
            self.take()
            while not self.at(">"):
                if self.peek()[0] == "life":
                    self.take()
                else:
                    args.append(self.type_())
                if self.at(","):
                    self.take()
                elif not self.at(">"):
                    raise Refuse("generic arguments near `%s`" % self.context())
            self.take(">")
        return ("path", segs, args)

    def signature(self):
        self.take("fn")
        name = self.take(kind="id")
        if self.at("<"):
            raise Refuse("generic parameters on a function")
        self.take("(")
        selfkind, params, first = None, [], True
        while not self.at(")"):
            if not first:
                self.take(",")
                if self.at(")"):
                    break
            if first and self.at("self"):
                self.take(); selfkind = "own"
            elif first and self.at("mut", "self"):
                raise Refuse("`mut self` receiver")
            elif first and self.at("&") and (self.peek(1)[1] == "self" or self.peek(2)[1] == "self" or
                                             (self.peek(1)[0] == "life" and self.peek(3)[1] == "self")):
                self.take()
                if self.peek()[0] == "life":
                    self.take()
                selfkind = "ref"
                if self.at("mut"):
                    self.take(); selfkind = "mut"
                self.take("self")
            elif self.at("mut"):
                raise Refuse("`mut` parameter near `%s`" % self.context())
            else:
                a = self.take(kind="id"); self.take(":")
                params.append((a, self.type_()))
            first = False
        self.take(")")
        rty = None
        if self.at("->"):
            self.take(); rty = self.type_()
        if self.at("where"):
            raise Refuse("`where` clause")
        self.end()
        return name, selfkind, params, rty

    # ---- patterns
    def pattern(self, closure=False):
        if self.at("("):
            self.take()
            ps = [self.pattern()]
            while self.at(","):
                self.take()
                if self.at(")"):
                    break
                ps.append(self.pattern())
            self.take(")")
            return ("ptuple", ps) if len(ps) > 1 else ps[0]
        if self.at("_"):
            self.take()
            return ("pwild",)
        if self.at("mut"):
            self.take()
            return ("pvar", True, self.take(kind="id"))
        if self.at("&") or self.at("&&") or self.at("ref"):
            raise Refuse("reference pattern near `%s`" % self.context())
        k, v = self.peek()
        if k != "id":
            raise Refuse("literal or unsupported pattern near `%s`" % self.context())
        self.take()
        if v == "None":
            return ("pnone",)
        if v in ("Some", "Ok", "Err"):
            self.take("(")
            p = self.pattern()
            self.take(")")
            return ("pctor", v, p)
        if self.at("::"):
            segs = [v]
            while self.at("::"):
                self.take(); segs.append(self.take(kind="id"))
            if self.at("(") or self.at("{"):
                raise Refuse("tuple-struct / struct pattern near `%s`" % self.context())
            return ("ppath", segs)
        if self.at("(") or self.at("{") or self.at("@"):
            raise Refuse("struct / binding pattern `%s ..` near `%s`" % (v, self.context()))
        if self.at("|") and not closure:
            raise Refuse("or-pattern near `%s`" % self.context())
        return ("pvar", False, v)

    # ---- expressions.  nostruct: condition / scrutinee position
    def expr(self, nostruct=False):
        a = self.and_(nostruct)
        while self.at("||"):
            self.take()
            a = ("logic", "||", a, self.and_(nostruct))
        if self.peek()[0] == "op" and self.peek()[1] in ("..", "..=", "^", "%", "/=", "%=", "|"):
            raise Refuse("operator %r near `%s`" % (self.peek()[1], self.context()))
        return a

    def and_(self, nostruct):
        a = self.cmp(nostruct)
        while self.at("&&"):
            self.take()
            a = ("logic", "&&", a, self.cmp(nostruct))
        return a

    def cmp(self, nostruct):
        a = self.arith(nostruct)
        if self.peek()[0] == "op" and self.peek()[1] in CMP:
            op = self.take()
            b = self.arith(nostruct)
            if self.peek()[0] == "op" and self.peek()[1] in CMP:
                raise Refuse("chained comparison near `%s`" % self.context())
            a = ("cmp", op, a, b)
        return a

    def arith(self, nostruct):
        a = self.term(nostruct)
        while self.peek()[0] == "op" and self.peek()[1] in ("+", "-"):
            op = self.take()
            a = ("bin", op, a, self.term(nostruct))
        return a

    def term(self, nostruct):
        a = self.cast(nostruct)
        while self.peek()[0] == "op" and self.peek()[1] in ("*", "/"):
            op = self.take()
            a = ("bin", op, a, self.cast(nostruct))
        return a

    def cast(self, nostruct):
        a = self.unary(nostruct)
        while self.at("as"):
            self.take()
            a = ("cast", a, self.type_())
        return a

    def unary(self, nostruct):
        if self.at("!"):
            self.take()
            return ("not", self.unary(nostruct))
        if self.at("-"):
            self.take()
            return ("neg", self.unary(nostruct))
        if self.at("*"):
            self.take()
            return ("deref", self.unary(nostruct))
        if self.at("&&"):
            raise Refuse("`&&` as a double reference near `%s`" % self.context())
        if self.at("&"):
            self.take()
            if self.at("mut"):
                self.take()
                return ("refmut", self.unary(nostruct))
            return ("ref", self.unary(nostruct))
        return self.postfix(nostruct)

    def args(self):
        self.take("(")
        out = []
        while not self.at(")"):
            out.append(self.expr())
            if self.at(","):
                self.take()
            elif not self.at(")"):
                raise Refuse("argument list near `%s`" % self.context())
        self.take(")")
        return out

    def postfix(self, nostruct):
        a = self.primary(nostruct)
        while True:
            if self.at("."):
                self.take()
                if self.peek()[0] == "int":
                    a = ("tfield", a, int(self.take(kind="int")))
                    continue
                if self.peek()[0] == "float":
                    raise Refuse("nested tuple field near `%s`" % self.context())
                if self.at("await"):
                    raise Refuse("`.await`")
                f = self.take(kind="id")
                turbo = None
                if self.at("::"):
                    self.take(); self.take("<"); turbo = self.type_(); self.take(">")
                if self.at("("):
                    a = ("mcall", a, f, turbo, self.args())
                elif turbo is not None:
                    raise Refuse("turbofish without a call near `%s`" % self.context())
                else:
                    a = ("field", a, f)
            elif self.at("["):
                self.take()
                if self.at(".."):
                    raise Refuse("range index near `%s`" % self.context())
                ix = self.expr()
                self.take("]")
                a = ("index", a, ix)
            elif self.at("?"):
                self.take()
                a = ("try", a)
            else:
                return a

    def closure(self):
        self.take("|")
        pat = self.pattern(True)
        if self.at(":"):
            raise Refuse("typed closure parameter")
        if self.at(","):
            raise Refuse("closure with several parameters")
        self.take("|")
        if self.at("{"):
            return ("closure", pat, ("blockexpr", self.block()))
        return ("closure", pat, self.stmt_expr())

    def stmt_expr(self):
        """an expression, or an assignment `place op= expr` (closure bodies and match arms may be one)"""
        e = self.expr()
        if self.peek()[0] == "op" and self.peek()[1] in ASSIGN:
            op = self.take()
            return ("assign", op, e, self.expr())
        return e

    def primary(self, nostruct):
        k, v = self.peek()
        if k == "int":
            self.take()
            m = re.fullmatch(r"([\d_]+)([iu]\w+)?", v)
            return ("int", m.group(1).replace("_", ""), m.group(2))
        if k == "float":
            self.take()
            return ("float", re.sub(r"_?f64$", "", v))
        if k == "char":
            self.take()
            return ("char", unescape(v)[0])
        if k == "str":
            self.take()
            return ("strlit", v)
        if k == "op" and v == "(":
            self.take()
            if self.at(")"):
                self.take()
                return ("unit",)
            a = self.expr()
            if self.at(","):
                parts = [a]
                while self.at(","):
                    self.take()
                    if self.at(")"):
                        break
                    parts.append(self.expr())
                self.take(")")
                return ("tuple", parts)
            self.take(")")
            return ("paren", a)
        if k == "op" and v == "|":
            return self.closure()
        if k == "op" and v == "||":
            raise Refuse("closure without parameters")
        if k == "op" and v == "{":
            return ("blockexpr", self.block())
        if k != "id":
            raise Refuse("unexpected %r near `%s`" % (v, self.context()))
        if v in ("true", "false"):
            self.take()
            return ("bool", v)
        if v == "match":
            return self.match_()
        if v == "if":
            return self.if_()
        if v == "return":
            self.take()
            if self.at(";") or self.at(",") or self.at("}"):
                return ("return", None)
            return ("return", self.expr())
        if v in KEYWORDS:
            raise Refuse("`%s` near `%s`" % (v, self.context()))
        self.take()
        if self.at("!") and self.peek(1)[1] in ("(", "[", "{") and self.peek(1)[0] == "op":
            self.take()
            open_ = self.take()
            close = {"(": ")", "[": "]", "{": "}"}[open_]
            depth, inner = 1, []
            while True:
                t = self.peek()
                if t[0] == "eof":
                    raise Refuse("unterminated macro call")
                self.i += 1
                if t[0] == "op" and t[1] == open_:
                    depth += 1
                elif t[0] == "op" and t[1] == close:
                    depth -= 1
                    if depth == 0:
                        break
                inner.append(t)
            return ("macro", v, inner)
        path = [v]
        while self.at("::"):
            self.take()
            if self.at("<"):
                raise Refuse("turbofish in a path near `%s`" % self.context())
            path.append(self.take(kind="id"))
        if self.at("("):
            if path == ["Some"] or path == ["Ok"] or path == ["Err"]:
                a = self.args()
                if len(a) != 1:
                    raise Refuse("%s with %d arguments" % (path[0], len(a)))
                return ("ctor", path[0], a[0])
            return ("call", path, self.args())
        if self.at("{") and not nostruct and len(path) == 1 and path[0][:1].isupper():
            self.take()
            fields, base = [], None
            while not self.at("}"):
                if self.at(".."):
                    self.take()
                    base = self.expr()
                    break
                f = self.take(kind="id")
                e = ("var", f)
                if self.at(":"):
                    self.take(); e = self.expr()
                fields.append((f, e))
                if self.at(","):
                    self.take()
                elif not self.at("}"):
                    raise Refuse("struct literal near `%s`" % self.context())
            self.take("}")
            return ("struct", path[0], fields, base)
        if len(path) > 1:
            return ("path", path)
        if v == "None":
            return ("none",)
        return ("var", v)

    def match_(self):
        self.take("match")
        scrut = self.expr(True)
        self.take("{")
        arms = []
        while not self.at("}"):
            pat = self.pattern()
            if self.at("if"):
                raise Refuse("match guard")
            self.take("=>")
            if self.at("{"):
                body = ("blockexpr", self.block())
                if self.at(","):
                    self.take()
            else:
                body = self.stmt_expr()
                if self.at(","):
                    self.take()
                elif not self.at("}"):
                    raise Refuse("match arm near `%s`" % self.context())
            arms.append((pat, body))
        self.take("}")
        return ("match", scrut, arms)

    def if_(self):
        self.take("if")
        pat = None
        if self.at("let"):
            self.take()
            pat = self.pattern()
            self.take("=")
        c = self.expr(True)
        if self.at("&&") or self.at("||"):
            raise Refuse("let chain")
        b1 = self.block()
        b2 = None
        if self.at("else"):
            self.take()
            b2 = ([], self.if_()) if self.at("if") else self.block()
        return ("iflet", pat, c, b1, b2) if pat is not None else ("if", c, b1, b2)

    # ---- statements
    def block(self):
        self.take("{")
        stmts, tail = [], None
        while not self.at("}"):
            if tail is not None:
                if tail[0] in ("if", "iflet", "match", "blockexpr"):      # a block-like expression used as a statement
                    stmts.append(("expr", tail)); tail = None
                else:
                    raise Refuse("an expression that is not last in its block, near `%s`" % self.context())
            if self.peek()[0] == "eof":
                raise Refuse("unterminated block")
            if self.at(";"):
                self.take()
                continue
            if self.at("let"):
                self.take()
                pat = self.pattern()
                if pat[0] in ("pnone", "pctor", "ppath"):
                    raise Refuse("refutable pattern in `let`")
                ty = None
                if self.at(":"):
                    self.take(); ty = self.type_()
                if not self.at("="):
                    raise Refuse("`let` without initialiser near `%s`" % self.context())
                self.take("=")
                e = self.expr()
                if self.at("else"):
                    raise Refuse("let-else")
                self.take(";")
                stmts.append(("let", pat, ty, e))
                continue
            if self.at("for"):
                self.take()
                pat = self.pattern()
                self.take("in")
                it = self.expr(True)
                body = self.block()
                stmts.append(("for", pat, it, body))
                continue
            e = self.stmt_expr()
            if self.at(";"):
                self.take()
                if e[0] == "assign":
                    stmts.append(e)
                else:
                    stmts.append(("ret", e[1]) if e[0] == "return" else ("expr", e))
            else:
                tail = e
        self.take("}")
        if tail is not None and tail[0] == "return":
            stmts.append(("ret", tail[1])); tail = None
        if tail is not None and tail[0] == "assign":
            stmts.append(tail); tail = None
        return (stmts, tail)


# ------------------------------------------------------------------ file structure
def load(rel):
    src = open(os.path.join(REPO, "src", rel), encoding="utf-8").read()
    src = src.split("#[cfg(test)]")[0]
    return src, split_items(tokens(src), rel)


def derives_default(src, struct):
    m = re.search(r"pub\s+struct\s+%s\b" % struct, src)
    if not m:
        return False
    before = src[:m.start()]
    cut = max(before.rfind("}"), before.rfind(";"))
    return re.search(r"#\[derive\([^)]*\bDefault\b[^)]*\)\]", before[cut + 1:]) is not None


def file_structure(prefix, rel, struct):
    """-> {generated name: (header tokens, body tokens, {assoc type name: tokens})}, consts, uses, derives Default"""
    src, items = load(rel)
    fns, consts, uses, structs = {}, {}, set(), {}
    inherent, outputs = False, {}
    for head, body in items:
        head = drop_vis(head)
        hv = [v for _, v in head]
        if hv[:1] == ["use"]:
            for v in hv + [v for _, v in (body or [])]:
                uses.add(v)
        elif hv[:1] == ["const"] and body is None:
            # const NAME : type = literal
            if len(head) >= 6 and is_op(head[2], ":") and is_op(head[-2], "=") and head[-1][0] in ("int", "float"):
                consts[hv[1]] = (head[3:-2], head[-1])
        elif hv[:1] == ["struct"] and body is not None:
            structs[hv[1]] = fields_of(body)
        elif hv[:1] == ["impl"] and body is not None:
            tr, targs, ty = impl_header(head)
            if ty != struct:
                continue
            if tr is None:
                inherent = True
            kind = "str" if "str" in targs else "spec" if SPEC in targs else None
            assoc, found = (outputs.setdefault(kind, {}) if tr in ("Index", "IndexMut") and kind else {}), []
            for h2, b2 in split_items(body, "%s: impl %s" % (rel, ty)):
                h2 = drop_vis(h2)
                h2v = [v for _, v in h2]
                if h2v[:1] == ["fn"] and b2 is not None:
                    name = None
                    if tr is None and h2v[1].lstrip("_") in INHERENT:
                        name = h2v[1].lstrip("_")
                    elif tr in ("Index", "IndexMut") and h2v[1] == {"Index": "index", "IndexMut": "index_mut"}[tr]:
                        if "str" in targs:
                            name = h2v[1] + "_str"
                        elif SPEC in targs:
                            name = h2v[1]
                    if name is not None:
                        if name in fns:
                            raise Structure("%s: `%s` defined twice" % (rel, name))
                        found.append(name)
                        fns[name] = (h2, b2, assoc, h2v[1])
                elif h2v[:1] == ["type"] and len(h2v) > 3 and h2v[2] == "=":
                    assoc[h2v[1]] = [t for t in h2[3:] if not is_op(t, ";")]
    f = structs.get(struct)
    if f is None:
        raise Structure("%s: no struct %s" % (rel, struct))
    comp = (f.get("composition") or "").replace(" < >", "")
    ok = comp == "Vec < ( %s , i32 ) >" % SPEC if prefix == "v" else comp.startswith("HashMap < %s , i32" % SPEC)
    if not ok or f.get("mass_cache") != "Option < f64 >" or len(f) != 2:
        raise Structure("%s: struct %s has fields %r" % (rel, struct, f))
    if not inherent:
        raise Structure("%s: no inherent impl of %s" % (rel, struct))
    return fns, consts, uses, derives_default(src, struct)


# ------------------------------------------------------------------ types
TEXT = ("str", "String")


def show(ty):
    if ty is None:
        return "_"
    if isinstance(ty, tuple):
        if ty[0] == "option":
            return "Option<%s>" % show(ty[1])
        if ty[0] == "result":
            return "Result<%s, _>" % show(ty[1])
        if ty[0] == "tuple":
            return "(%s)" % ", ".join(show(t) for t in ty[1])
        if ty[0] in ("iter", "vec"):
            return "%s<%s>" % ("Iterator" if ty[0] == "iter" else "Vec", show(ty[1]))
    return ty


def unify(a, b):
    if a is None:
        return b
    if b is None:
        return a
    if a in TEXT and b in TEXT:
        return "str"
    if isinstance(a, tuple) and isinstance(b, tuple):
        if a[0] in ("iter", "vec") and b[0] in ("iter", "vec"):
            return (a[0], unify(a[1], b[1]))
        if a[0] == b[0] == "option":
            return ("option", unify(a[1], b[1]))
        if a[0] == b[0] == "result":
            return ("result", unify(a[1], b[1]), "Err")
        if a[0] == b[0] == "tuple" and len(a[1]) == len(b[1]):
            return ("tuple", [unify(x, y) for x, y in zip(a[1], b[1])])
    if a == b:
        return a
    raise Refuse("values of type %s and %s where one type is needed" % (show(a), show(b)))


def same(a, b):
    try:
        unify(a, b)
        return True
    except Refuse:
        return False


def known(ty):
    if ty is None:
        return False
    if isinstance(ty, tuple):
        return all(known(t) for t in (ty[1] if ty[0] == "tuple" else [ty[1]]))
    return True


def unparen(e):
    while e[0] in ("paren", "ref", "deref"):
        e = e[1]
    return e


def diverges(body):
    body = unparen(body)
    if body[0] == "return":
        return True
    if body[0] == "macro" and body[1] in ("panic", "unreachable", "unimplemented", "todo"):
        return True
    if body[0] == "blockexpr":
        ss, tail = body[1]
        if tail is not None:
            return diverges(tail)
        return bool(ss) and (ss[-1][0] == "ret" or (ss[-1][0] == "expr" and diverges(ss[-1][1])))
    return False


class Cont:
    """what is done with the value of an expression: fn(text, type, env) -> Gallina text.  trivial: the value is the
    function's result (duplicating the continuation in several branches costs nothing); uses: the value is used"""
    def __init__(self, fn, trivial=False, uses=True):
        self.fn, self.trivial, self.uses = fn, trivial, uses


def bound_names(x, acc):
    """every name a pattern / block / arm body binds (closures excluded)"""
    if isinstance(x, tuple):
        if x and x[0] == "pvar":
            acc.add(x[2])
        elif x and x[0] == "closure":
            return acc
        else:
            for c in x:
                bound_names(c, acc)
    elif isinstance(x, list):
        for c in x:
            bound_names(c, acc)
    return acc


ENTRY = ("tuple", ["Spec", "i32"])
PANIC_MACROS = ("panic", "unreachable", "unimplemented", "todo")


class Fn:
    def __init__(self, gname, sig, body, assoc, world):
        self.gname, self.body, self.assoc, self.world = gname, body, assoc, world
        self.P = world.prefix
        _, self.selfkind, params, rty = sig
        self.ntemp, self.calls, self.loop_state = 0, [], None
        self.params = [(a, self.resolve(t)) for a, t in params]
        self.rty = self.resolve(rty) if rty is not None else "unit"
        self.PRE = "N PERIODIC_TABLE uni_alphabetic" + (" shuffle" if self.P == "m" else "")
        self.place_upd = "%s_place_upd" % self.P

    # ---- types
    def resolve(self, t):
        if t[0] == "mutref":
            r = self.resolve(t[1])
            if r == "i32":
                return "Place"
            raise Refuse("`&mut %s`" % show(r))
        if t[0] == "tuple":
            return ("tuple", [self.resolve(x) for x in t[1]])
        segs, args = t[1], t[2]
        last = segs[-1]
        if segs == ["()"]:
            return "unit"
        if segs == ["[]"]:
            return ("vec", self.resolve(args[0]))
        if segs == ["Self"] or (len(segs) == 1 and last == self.world.struct):
            return "Self"
        if len(segs) == 2 and segs[0] == "Self":
            toks = self.assoc.get(segs[1])
            if not toks:
                raise Refuse("`Self::%s` without `type %s = ..;`" % (segs[1], segs[1]))
            return self.resolve(Parser(toks).type_())
        if last == "Option" and len(args) == 1:
            return ("option", self.resolve(args[0]))
        if last == "Vec" and len(args) == 1:
            return ("vec", self.resolve(args[0]))
        if last == "Iter" and "Iter" in self.world.uses:
            a = [self.resolve(x) for x in args]
            item = a[0] if len(a) == 1 else ("tuple", a)
            if item != ENTRY:
                raise Refuse("an iterator over %s" % show(item))
            return ("iter", ENTRY)
        if last == "IterMut" and "IterMut" in self.world.uses:
            a = [self.resolve(x) for x in args]
            if (a[0] if len(a) == 1 else ("tuple", a)) != ENTRY:
                raise Refuse("a mutable iterator over something else than the entries")
            return "IterMut"
        if last == "HashMap" and len(args) >= 2 and self.resolve(args[0]) == "Spec" and self.resolve(args[1]) == "i32":
            return "HMap"
        base = {"str": "str", "String": "String", "u8": "u8", "u16": "u16", "usize": "usize", "i32": "i32", "bool": "bool",
                "f64": "f64", "Element": "Elem", SPEC: "Spec", LIKE: "Like"}
        if len(segs) == 1 and last in base and (not args or last == SPEC):
            return base[last]
        raise Refuse("type `%s`" % "::".join(segs))

    def coq_ty(self, ty):
        if ty is None:
            raise Refuse("a value whose type is not determined")
        if isinstance(ty, tuple):
            if ty[0] == "option":
                return "option %s" % atom(self.coq_ty(ty[1]))
            if ty[0] == "result":
                return "eres %s" % atom(self.coq_ty(ty[1]))
            if ty[0] == "tuple":
                return "(%s)" % " * ".join(atom(self.coq_ty(t)) for t in ty[1])
            if ty[0] in ("iter", "vec"):
                return "list %s" % atom(self.coq_ty(ty[1]))
        return {"str": "str", "String": "str", "u8": "N", "u16": "N", "usize": "nat", "i32": "Z", "bool": "bool", "f64": "F",
                "unit": "unit", "Elem": "elem", "Spec": "espec", "Like": "like", "Err": "espec_err", "Table": "ptable",
                "Isos": "list (N * iso)", "Iso": "iso", "Self": "ccomp F", "HMap": "sents", "IterMut": "unit",
                "Entry": "espec", "Place": "nat" if self.P == "v" else "espec"}[ty]

    # ---- names
    def fresh(self, prefix):
        self.ntemp += 1
        return "%s_%d" % (prefix, self.ntemp)

    def declare(self, env, x, ty, mut=False):
        if not re.fullmatch(r"[a-z_][a-z0-9_]*", x) or x == "_" or x == "self" or x.endswith("_gen") or re.fullmatch(r"[tkr]_\d+", x):
            raise Refuse("local name `%s` is not a plain lower-case identifier (or looks like a generated one)" % x)
        if not known(ty):
            raise Refuse("the type of `%s` is not determined" % x)
        if x in env and env[x]["mut"]:
            raise Refuse("`%s` shadows a mutable local" % x)
        if mut and ty not in ("i32", "f64", "usize", "bool"):
            raise Refuse("`let mut %s` of type %s" % (x, show(ty)))
        env = dict(env)
        c = x + "_" if x in RESERVED else x
        if any(v["coq"] == c and n != x for n, v in env.items()):
            raise Refuse("local names `%s` and `%s` collide after renaming" % (x, c))
        env[x] = {"ty": ty, "coq": c, "mut": mut}
        return env

    def pat_bind(self, pat, ty, env):
        """an irrefutable pattern -> (Gallina pattern text, new env)"""
        if pat[0] == "pvar":
            env = self.declare(env, pat[2], ty, pat[1])
            return env[pat[2]]["coq"], env
        if pat[0] == "pwild":
            return "_", env
        if pat[0] == "ptuple":
            if not (isinstance(ty, tuple) and ty[0] == "tuple" and len(ty[1]) == len(pat[1])):
                raise Refuse("tuple pattern for a value of type %s" % show(ty))
            parts = []
            for p, t in zip(pat[1], ty[1]):
                txt, env = self.pat_bind(p, t, env)
                parts.append(txt)
            return "(" + ", ".join(parts) + ")", env
        raise Refuse("refutable pattern where an irrefutable one is needed")

    @staticmethod
    def q(ptxt):
        return "'" + ptxt if ptxt.startswith("(") else ptxt

    def muts(self, env):
        return [n for n, v in env.items() if v["mut"]]

    def state(self, env):
        ms = [env[m]["coq"] for m in self.muts(env)]
        if not ms:
            return None
        return ms[0] if len(ms) == 1 else "(" + ", ".join(ms) + ")"

    # ---- exits
    def panic(self):
        if self.loop_state is not None:
            return "inr %s" % self.loop_state
        return "(self, PPanic)" if self.selfkind == "mut" else "PPanic"

    def ret(self, t):
        return "(self, POk %s)" % atom(t) if self.selfkind == "mut" else "POk %s" % atom(t)

    def retk(self):
        def fn(t, ty):
            if not same(ty, self.rty):
                raise Refuse("returns a %s, declared %s" % (show(ty), show(self.rty)))
            return self.ret(t)
        return Cont(fn, trivial=True)

    @staticmethod
    def wrap(wr, text):
        for w in reversed(wr):
            text = w(text)
        return text

    def set_field(self, f, new):
        if self.selfkind != "mut":
            raise Refuse("`self.%s` is changed in a function that does not take `&mut self`" % f)
        if f == "composition":
            return "mkCC %s (mass_cache self)" % atom(new)
        return "mkCC (composition self) %s" % atom(new)

    def comp_ty(self):
        return ("vec", ENTRY) if self.P == "v" else "HMap"

    # ---- branching constructs: how the branches hand over to the rest
    def branch(self, env, k, n_cont, bound, gen):
        outer = set(env) | set(v["coq"] for v in env.values())
        if k.trivial or (n_cont <= 1 and not (bound & outer)):
            return gen(k)
        kn, ms, seen = self.fresh("k"), self.muts(env), []

        def bk(t, ty):
            seen.append(ty)
            parts = [kn] + [env[m]["coq"] for m in ms] + ([atom(t)] if k.uses else [])
            return " ".join(parts) if len(parts) > 1 else "%s tt" % kn
        text = gen(Cont(bk, uses=k.uses))
        ty = None
        for s in seen:
            ty = unify(ty, s)
        binders = ["(%s : %s)" % (env[m]["coq"], self.coq_ty(env[m]["ty"])) for m in ms]
        if k.uses:
            v = self.fresh("t")
            binders.append("(%s : %s)" % (v, self.coq_ty(ty)))
            rest = k.fn(v, ty)
        else:
            rest = k.fn("tt", "unit")
        if not binders:
            binders = ["(_ : unit)"]
        return "let %s := fun %s =>\n%s in\n%s" % (kn, " ".join(binders), ind(rest), text)

    # ---- the value of an expression, passed to a continuation
    def value(self, e, env, want, k):
        core = unparen(e)
        kind = core[0]
        if kind == "match":
            return self.value(core[1], env, None, Cont(lambda st, sty: self.match_on(st, sty, core[2], env, want, k)))
        if kind == "iflet":
            _, pat, c, b1, b2 = core
            arms = [(pat, ("blockexpr", b1)), (("pwild",), ("blockexpr", b2 if b2 is not None else ([], None)))]
            return self.value(c, env, None, Cont(lambda st, sty: self.match_on(st, sty, arms, env, want, k)))
        if kind == "if":
            _, c, b1, b2 = core
            b2 = b2 if b2 is not None else ([], None)

            def on_cond(ct, cty):
                if cty != "bool":
                    raise Refuse("`if` on a %s" % show(cty))
                w = want if want is not None else self.type_of(("if", c, b1, b2), env)
                n_cont = sum(not diverges(("blockexpr", b)) for b in (b1, b2))

                def gen(kk):
                    t1 = self.seq(b1[0], b1[1], env, w, kk)
                    t2 = self.seq(b2[0], b2[1], env, w, kk)
                    return "if %s then\n%s\nelse\n%s" % (strip(ct), ind(t1), ind(t2))
                return self.branch(env, k, n_cont, bound_names([b1, b2], set()), gen)
            return self.value(c, env, "bool", Cont(on_cond))
        if kind == "blockexpr":
            ss, tail = core[1]
            return self.branch(env, k, 1, bound_names(core[1], set()), lambda kk: self.seq(ss, tail, env, want, kk))
        if kind == "return":
            if self.loop_state is not None:
                raise Refuse("`return` inside a loop")
            if core[1] is None:
                return self.retk().fn("tt", "unit")
            return self.value(core[1], env, self.rty, self.retk())
        if kind == "macro":
            if core[1] not in PANIC_MACROS:
                raise Refuse("macro `%s!`" % core[1])
            return self.panic()
        if kind == "assign":
            return self.assign(core, env, k)
        if kind == "mcall":
            r = self.root_call(core, env, want, k)
            if r is not None:
                return r
        wr = []
        t, ty = self.ex(e, env, want, wr)
        return self.wrap(wr, k.fn(strip(t), ty))

    def own_method(self, core, env):
        """`x.m(args)` with x of this file's type and m a function of this file -> generated name, or None"""
        recv, m, args = unparen(core[1]), core[2], core[4]
        if recv[0] != "var" or recv[1] not in env or env[recv[1]]["ty"] != "Self" or m not in self.world.by_src:
            return None
        return self.overload(m, args, env)

    def overload(self, m, args, env):
        cands = self.world.by_src[m]
        if len(cands) == 1:
            return cands[0]
        aty = self.type_of(args[0], env) if args else None
        for c in cands:
            if c.endswith("_str") == (aty in TEXT):
                return c
        raise Refuse("cannot tell which `%s` is called" % m)

    def typed_args(self, name, args, params, env, wr):
        if len(params) != len(args):
            raise Refuse("call of %s with %d arguments" % (name, len(args)))
        out = []
        for a, (_, pt) in zip(args, params):
            t, ty = self.ex(a, env, pt, wr)
            if not same(ty, pt):
                raise Refuse("argument of %s has type %s, the parameter has %s" % (name, show(ty), show(pt)))
            out.append(atom(t))
        return out

    def root_call(self, core, env, want, k):
        recv, m, args = unparen(core[1]), core[2], core[4]
        g = self.own_method(core, env)
        if g is not None:
            sig = self.need(g)
            if sig["selfkind"] != "mut":
                return None
            if recv != ("var", "self") or self.selfkind != "mut":
                raise Refuse("a `&mut self` function called on something else than a mutable `self`")
            wr = []
            at = self.typed_args(g, args, sig["params"], env, wr)
            r, t = self.fresh("r"), self.fresh("t")
            call = " ".join(["%s_%s_gen" % (self.P, g), self.PRE, "self"] + at)
            text = "let '(self, %s) := %s in\nmatch %s with\n| PPanic => %s\n| POk %s =>\n%s\nend" % (
                r, call, r, self.panic(), t, ind(k.fn(t, sig["rty"])))
            return self.wrap(wr, text)
        if recv == ("field", ("var", "self"), "composition") and m == "push" and self.P == "v" and len(args) == 1:
            wr = []
            t, ty = self.ex(args[0], env, ENTRY, wr)
            if not same(ty, ENTRY):
                raise Refuse("push(<%s>)" % show(ty))
            new = "(composition self ++ [%s])%%list" % t
            return self.wrap(wr, "let self := %s in\n%s" % (self.set_field("composition", new), k.fn("tt", "unit")))
        if recv == ("field", ("var", "self"), "composition") and m == "insert" and self.P == "m" and len(args) == 2:
            wr = []
            a, ta = self.ex(args[0], env, "Spec", wr)
            b, tb = self.ex(args[1], env, "i32", wr)
            if ta != "Spec" or tb != "i32":
                raise Refuse("insert(<%s>, <%s>)" % (show(ta), show(tb)))
            if k.uses:
                raise Refuse("the value of `insert` is used")
            new = "(hm_insert shuffle %s %s (composition self))" % (atom(a), atom(b))
            return self.wrap(wr, "let self := %s in\n%s" % (self.set_field("composition", new), k.fn("tt", "unit")))
        if m == "or_insert" and len(args) == 1:
            wr = []
            a, ta = self.ex(core[1], env, None, wr)
            if ta != "Entry":
                raise Refuse("`.or_insert(..)` on a %s" % show(ta))
            d, td = self.ex(args[0], env, "i32", wr)
            if td != "i32":
                raise Refuse("or_insert(<%s>)" % show(td))
            c, p = self.fresh("t"), self.fresh("t")
            text = "let '(%s, %s) := hm_or_insert shuffle %s %s (composition self) in\nlet self := %s in\n%s" % (
                c, p, atom(a), atom(d), self.set_field("composition", c), k.fn(p, "Place"))
            return self.wrap(wr, text)
        if m == "for_each" and len(args) == 1 and args[0][0] == "closure":
            def on_iter(it, ity):
                if ity != "IterMut":
                    raise Refuse("`.for_each(..)` on a %s" % show(ity))
                return "let self := %s in\n%s" % (self.set_field("composition", self.for_mut(args[0], env)), k.fn("tt", "unit"))
            if self.type_of(core[1], env, allow_mut=True) != "IterMut":
                return None
            return self.value(core[1], env, None, Cont(on_iter))
        return None

    def for_mut(self, clos, env):
        """`|(k, v)| *v op= e` over all entries -> for_mut (fun '(k, v) => (k, v op e)) (composition self)"""
        _, pat, body = clos
        if not (pat[0] == "ptuple" and len(pat[1]) == 2 and pat[1][1][0] == "pvar" and pat[1][0][0] in ("pwild", "pvar")):
            raise Refuse("the closure of `for_each` over `iter_mut()` must take `(_, v)`")
        kname = self.fresh("t") if pat[1][0][0] == "pwild" else None
        cenv = env if kname else self.declare(env, pat[1][0][2], "Spec")
        kname = kname or cenv[pat[1][0][2]]["coq"]
        cenv = self.declare(cenv, pat[1][1][2], "i32")
        v = cenv[pat[1][1][2]]["coq"]
        b = body
        while b[0] == "blockexpr" and len(b[1][0]) + (b[1][1] is not None) == 1:
            b = b[1][0][0] if b[1][0] else b[1][1]
        if not (b[0] == "assign" and unparen(b[2]) == ("var", pat[1][1][2]) and b[2][0] == "deref"):
            raise Refuse("the closure of `for_each` over `iter_mut()` must be one assignment `*v op= e`")
        t, ty = self.ex(b[3], cenv, "i32", None)
        if ty != "i32":
            raise Refuse("`*v %s <%s>`" % (b[1], show(ty)))
        return "(for_mut (fun '(%s, %s) => (%s, %s)) (composition self))" % (kname, v, kname, strip(self.arith(b[1], v, t, "i32")))

    def arith(self, op, a, b, ty):
        if op == "=":
            return b
        o = op[0]
        if ty == "i32" and o in "+-*":
            return "(%s %s %s)%%Z" % (atom(a), o, atom(b))
        if ty == "f64" and o in "+-*/":
            return "(%s N %s %s)" % ({"+": "add", "-": "sub", "*": "mul", "/": "div"}[o], atom(a), atom(b))
        raise Refuse("`%s` on a %s" % (op, show(ty)))

    def assign(self, s, env, k):
        _, op, lhs, rhs = s
        l = lhs
        while l[0] == "paren":
            l = l[1]
        done = lambda: k.fn("tt", "unit")
        if l[0] == "field" and l[1] == ("var", "self") and l[2] in ("composition", "mass_cache"):
            if op != "=":
                raise Refuse("`self.%s %s ..`" % (l[2], op))
            fty = self.comp_ty() if l[2] == "composition" else ("option", "f64")

            def fn(t, ty):
                if not same(ty, fty):
                    raise Refuse("`self.%s = <%s>`" % (l[2], show(ty)))
                return "let self := %s in\n%s" % (self.set_field(l[2], t), done())
            return self.value(rhs, env, fty, Cont(fn))
        if l[0] == "var" and l[1] in env and env[l[1]]["mut"] and l[1] != "self":
            x, ty = env[l[1]]["coq"], env[l[1]]["ty"]

            def fn(t, tyv):
                if not same(tyv, ty):
                    raise Refuse("`%s %s <%s>`" % (l[1], op, show(tyv)))
                return "let %s := %s in\n%s" % (x, strip(self.arith(op, x, t, ty)), done())
            return self.value(rhs, env, ty, Cont(fn))
        if l[0] == "deref" and unparen(l)[0] == "var" and unparen(l)[1] in env and env[unparen(l)[1]]["ty"] == "Place":
            p = env[unparen(l)[1]]["coq"]

            def fn(t, tyv):
                if tyv != "i32":
                    raise Refuse("`*%s %s <%s>`" % (p, op, show(tyv)))
                old = self.fresh("t")
                new = self.arith(op, old, t, "i32")
                if self.selfkind != "mut":
                    raise Refuse("a write through a `&mut i32` in a function that does not take `&mut self`")
                return "let self := %s (fun %s => %s) %s self in\n%s" % (self.place_upd, old if op != "=" else "_", strip(new), p, done())
            return self.value(rhs, env, "i32", Cont(fn))
        if l[0] == "tfield" and l[2] == 1 and l[1][0] == "index" and unparen(l[1][1]) == ("field", ("var", "self"), "composition") \
                and self.P == "v":
            if op != "=":
                raise Refuse("`self.composition[..].1 %s ..`" % op)

            def fn(t, tyv):
                if tyv != "i32":
                    raise Refuse("`self.composition[..].1 = <%s>`" % show(tyv))
                wr = []
                it, ity = self.ex(l[1][2], env, "usize", wr)
                if ity != "usize":
                    raise Refuse("index of type %s" % show(ity))
                nv, p = self.fresh("t"), self.fresh("t")
                text = "match vec_upd %s (fun %s => (fst %s, %s)) (composition self) with\n| None => %s\n| Some %s =>\n%s\nend" % (
                    atom(it), p, p, atom(t), self.panic(), nv,
                    ind("let self := %s in\n%s" % (self.set_field("composition", nv), done())))
                return self.wrap(wr, text)
            return self.value(rhs, env, "i32", Cont(fn))
        raise Refuse("assignment to this place")

    def type_of(self, e, env, want=None, allow_mut=False):
        """the type of an expression, without keeping what translating it produced"""
        saved, calls = self.ntemp, list(self.calls)
        try:
            core = unparen(e)
            if core[0] in ("if", "iflet"):
                b1, b2 = (core[2], core[3]) if core[0] == "if" else (core[3], core[4])
                ty = want
                for b in (b1, b2):
                    if b is not None and not b[0] and b[1] is not None and not diverges(b[1]):
                        t = self.type_of(b[1], env, ty)
                        if known(t):
                            ty = unify(ty, t)
                return ty
            if core[0] == "match":
                ty = want
                for _, b in core[2]:
                    if not diverges(b):
                        t = self.type_of(b, env, ty)
                        if known(t):
                            ty = unify(ty, t)
                return ty
            if core[0] == "blockexpr":
                return self.type_of(core[1][1], env, want) if not core[1][0] and core[1][1] is not None else want
            if core[0] == "mcall" and allow_mut:
                g = self.own_method(core, env)
                if g is not None:
                    return self.need(g)["rty"]
            return self.ex(e, env, want, [])[1]
        except (Refuse, KeyError):
            return want
        finally:
            self.ntemp, self.calls = saved, calls

    def match_on(self, st, sty, arms, env, want, k):
        arms = [(p, b if b[0] != "assign" else ("blockexpr", ([b], None))) for p, b in arms]
        if isinstance(sty, tuple) and sty[0] == "option":
            ctors = [("None", lambda p: p[0] == "pnone", None), ("Some", lambda p: p[0] == "pctor" and p[1] == "Some", sty[1])]
        elif isinstance(sty, tuple) and sty[0] == "result":
            ctors = [("EOk", lambda p: p[0] == "pctor" and p[1] == "Ok", sty[1]), ("EErr", lambda p: p[0] == "pctor" and p[1] == "Err", "Err")]
        elif sty == "Like":
            ctors = [("Like" + v, (lambda v: lambda p: p[0] == "ppath" and p[1][-1] == v and p[1][:-1] in ([LIKE], ["Self"]))(v), None)
                     for v in ("Yes", "No", "Maybe")]
        elif sty == "bool":
            ctors = [("true", lambda p: False, None), ("false", lambda p: False, None)]
            raise Refuse("`match` on a bool")
        else:
            raise Refuse("`match` / `if let` on a %s" % show(sty))
        for p, _ in arms:
            if p[0] == "pvar":
                raise Refuse("a catch-all arm that binds the value")
            if p[0] != "pwild" and not any(c[1](p) for c in ctors):
                raise Refuse("pattern does not fit a %s" % show(sty))
        if want is None:
            want = self.type_of(("match", None, [(p, b) for p, b in arms if p[0] in ("pwild", "pnone", "ppath")]), env)
        n_cont = sum(not diverges(b) for _, b in arms)

        def gen(kk):
            out = []
            for cname, fits, inner in ctors:
                mine = [(p, b) for p, b in arms if p[0] == "pwild" or fits(p)]
                if not mine:
                    raise Refuse("`match` without an arm for %s" % cname)
                p, b = mine[0]
                aenv, binder = env, ""
                if inner is not None:
                    if p[0] == "pwild":
                        binder = " _"
                    else:
                        txt, aenv = self.pat_bind(p[2], inner, env)
                        binder = " " + txt
                out.append("| %s%s =>\n%s" % (cname, binder, ind(self.value(b, aenv, want, kk))))
            if ctors[0][0] == "EOk":
                out.append("| EPanic => %s" % self.panic())
            return "match %s with\n%s\nend" % (strip(st), "\n".join(out))
        return self.branch(env, k, n_cont, bound_names([(p, b) for p, b in arms], set()), gen)

    # ---- statements
    def seq(self, ss, tail, env, want, k):
        if not ss:
            if tail is None:
                return k.fn("tt", "unit")
            return self.value(tail, env, want, k)
        s, more = ss[0], ss[1:]
        again = lambda env2: self.seq(more, tail, env2, want, k)
        if s[0] == "let":
            _, pat, ty, e = s
            wty = self.resolve(ty) if ty is not None else None

            def bind(t, tyv):
                if wty is not None and not same(wty, tyv):
                    raise Refuse("let: declared %s, initialiser has %s" % (show(wty), show(tyv)))
                ptxt, env2 = self.pat_bind(pat, unify(wty, tyv), env)
                if ptxt == t or ptxt == "_":
                    return again(env2)
                return "let %s := %s in\n%s" % (self.q(ptxt), t, again(env2))
            return self.value(e, env, wty, Cont(bind))
        if s[0] == "ret":
            if more or tail is not None:
                raise Refuse("statements after `return`")
            return self.value(("return", s[1]), env, None, k)
        if s[0] == "expr":
            return self.value(s[1], env, None, Cont(lambda t, ty: again(env), uses=False))
        if s[0] == "assign":
            return self.assign(s, env, Cont(lambda t, ty: again(env), uses=False))
        if s[0] == "for":
            return self.for_(s, env, lambda: again(env))
        raise Refuse("statement form %r" % s[0])

    def for_(self, s, env, rest):
        _, pat, it, body = s
        if self.loop_state is not None:
            raise Refuse("nested loops")

        def on_iter(itext, ity):
            if isinstance(ity, tuple) and ity[0] in ("iter", "vec"):
                item = ity[1]
            elif ity == "HMap":
                item = ENTRY
            else:
                raise Refuse("`for` over a %s" % show(ity))
            st = self.state(env)
            if st is None:
                raise Refuse("a loop in a function without mutable state")
            ptxt, benv = self.pat_bind(pat, item, env)
            self.loop_state = st
            try:
                btext = self.seq(body[0], body[1], benv, None, Cont(lambda t, ty: "inl %s" % st, trivial=True, uses=False))
            finally:
                self.loop_state = None
            return "match for_each_p %s (fun %s %s =>\n%s) %s with\n| inl %s =>\n%s\n| inr %s =>\n%s\nend" % (
                atom(itext), self.q(ptxt), self.q(st), ind(btext, 4), st, st, ind(rest()), st, ind(self.panic()))
        return self.value(it, env, None, Cont(on_iter))

    # ---- calls
    def need(self, name):
        if name == self.gname:
            raise Refuse("recursive call")
        sig = self.world.sig(name)
        if name not in self.calls:
            self.calls.append(name)
        return sig

    def espec(self, name):
        ew = self.world.espec
        if ew is None:
            raise Refuse("uses ElementSpecification::%s, but gen_espec.py refuses src/element_specification.rs" % name)
        if name not in ew.done:
            raise Refuse("uses `%s` of element_specification.rs, which gen_espec.py skipped (%s)" % (name, ew.skipped.get(name, "?")))
        if "e:" + name not in self.calls:
            self.calls.append("e:" + name)
        return ew.done[name]

    def effect(self, wr, what):
        if wr is None:
            raise Refuse("%s in a closure or in a conditionally evaluated operand" % what)

    def call_own(self, g, recv, args, env, wr):
        sig = self.need(g)
        if sig["selfkind"] == "mut":
            raise Refuse("the `&mut self` function `%s` is called inside a larger expression" % g)
        self.effect(wr, "a call of `%s` (it may panic)" % g)
        if (sig["selfkind"] is None) != (recv is None):
            raise Refuse("`%s` called %s a receiver" % (g, "without" if recv is None else "with"))
        at = self.typed_args(g, args, sig["params"], env, wr)
        call = " ".join(["%s_%s_gen" % (self.P, g), self.PRE] + ([atom(recv)] if recv is not None else []) + at)
        t = self.fresh("t")
        pan = self.panic()
        wr.append(lambda rest: "match %s with\n| PPanic => %s\n| POk %s =>\n%s\nend" % (call, pan, t, ind(rest)))
        return t, sig["rty"]

    def call_espec(self, name, args, env, wr):
        sig = self.espec(name)
        if sig["selfkind"] is not None:
            raise Refuse("`%s` is a method" % name)
        at = self.typed_args(name, args, sig["params"], env, wr)
        return "(%s_gen PERIODIC_TABLE uni_alphabetic %s)" % (name, " ".join(at)), sig["rty"]

    def closure_fn(self, clos, pty, env):
        _, pat, body = clos
        ptxt, cenv = self.pat_bind(pat, pty, env)
        while body[0] == "blockexpr" and not body[1][0] and body[1][1] is not None:
            body = body[1][1]
        t, ty = self.ex(body, cenv, None, None)
        return "(fun %s => %s)" % (self.q(ptxt), strip(t)), ty

    def pair(self, l, r, env, wr):
        if unparen(l)[0] in ("int", "float"):
            b = self.ex(r, env, None, wr)
            return self.ex(l, env, b[1], wr), b
        a = self.ex(l, env, None, wr)
        return a, self.ex(r, env, a[1], wr)

    # ---- expressions: (text, type); effects are appended to wr (None: no effect allowed here)
    def ex(self, e, env, want=None, wr=None):
        k = e[0]
        if k in ("paren", "ref", "deref"):
            return self.ex(e[1], env, want, wr)
        if k == "refmut":
            raise Refuse("a `&mut` expression")
        if k == "int":
            ty = e[2] or (want if want in ("i32", "usize", "u16", "u8") else None)
            if ty is None:
                raise Refuse("integer literal %s where no i32 / usize / u16 is expected" % e[1])
            if e[2] and want in ("i32", "usize", "u16", "u8") and e[2] != want:
                raise Refuse("literal %s%s where a %s is expected" % (e[1], e[2], want))
            n = int(e[1])
            if ty == "i32" and n < 2 ** 31:
                return "%d%%Z" % n, ty
            if ty == "usize" and n <= 100000:
                return "%d%%nat" % n, ty
            if ty in ("u16", "u8") and n < (65536 if ty == "u16" else 256):
                return "%d%%N" % n, ty
            raise Refuse("literal %s of type %s" % (e[1], ty))
        if k == "float":
            import gen_src
            v = e[1].replace("_", "")
            if re.fullmatch(r"0+\.0+", v):
                return "(zero N)", "f64"
            if re.fullmatch(r"0*1\.0+", v):
                return "(one N)", "f64"
            return gen_src.float_lit(v), "f64"
        if k == "bool":
            return e[1], "bool"
        if k == "unit":
            return "tt", "unit"
        if k == "strlit":
            return "[%s]" % "; ".join("%d%%N" % c for c in unescape(e[1])), "str"
        if k == "none":
            return "None", ("option", want[1] if isinstance(want, tuple) and want[0] == "option" else None)
        if k == "var":
            if e[1] in env:
                return env[e[1]]["coq"], env[e[1]]["ty"]
            if e[1] in self.world.consts:
                tt, lit = self.world.consts[e[1]]
                cty = self.resolve(Parser(list(tt)).type_())
                node = ("float", lit[1]) if lit[0] == "float" else ("int", re.sub(r"[iu]\w+$", "", lit[1]).replace("_", ""), None)
                return self.ex(node, env, cty, wr)
            if e[1] == "PERIODIC_TABLE" and "PERIODIC_TABLE" in self.world.uses:
                return "PERIODIC_TABLE", "Table"
            raise Refuse("unknown name `%s`" % e[1])
        if k == "path":
            segs = e[1]
            if segs in (["crate", "PERIODIC_TABLE"], ["crate", "table", "PERIODIC_TABLE"]):
                return "PERIODIC_TABLE", "Table"
            if len(segs) == 2 and segs[0] == LIKE and segs[1] in ("Yes", "No", "Maybe"):
                return "Like" + segs[1], "Like"
            raise Refuse("path `%s`" % "::".join(segs))
        if k == "ctor":
            if e[1] == "Some":
                t, ty = self.ex(e[2], env, want[1] if isinstance(want, tuple) and want[0] == "option" else None, wr)
                return "(Some %s)" % atom(t), ("option", ty)
            raise Refuse("`%s(..)` as a value" % e[1])
        if k == "tuple":
            ws = want[1] if isinstance(want, tuple) and want[0] == "tuple" and len(want[1]) == len(e[1]) else [None] * len(e[1])
            parts = [self.ex(x, env, w, wr) for x, w in zip(e[1], ws)]
            return "(%s)" % ", ".join(strip(t) for t, _ in parts), ("tuple", [ty for _, ty in parts])
        if k == "struct":
            if e[1] not in ("Self", self.world.struct):
                raise Refuse("struct literal `%s {..}`" % e[1])
            d = dict(e[2])
            if e[3] is not None:
                b = unparen(e[3])
                if not (b[0] == "call" and b[1] == ["Default", "default"] and not b[2]):
                    raise Refuse("struct update from something else than `Default::default()`")
                if not self.world.derives_default:
                    raise Refuse("`..Default::default()` but the struct does not derive Default")
            elif sorted(d) != ["composition", "mass_cache"]:
                raise Refuse("struct literal with fields %s" % ", ".join(sorted(d)))
            if set(d) - {"composition", "mass_cache"}:
                raise Refuse("struct literal with fields %s" % ", ".join(sorted(d)))
            c = self.ex(d["composition"], env, self.comp_ty(), wr) if "composition" in d else ("[]", self.comp_ty())
            m = self.ex(d["mass_cache"], env, ("option", "f64"), wr) if "mass_cache" in d else ("None", ("option", "f64"))
            if not same(c[1], self.comp_ty()) or not same(m[1], ("option", "f64")):
                raise Refuse("struct literal with fields of type %s, %s" % (show(c[1]), show(m[1])))
            return "(mkCC %s %s)" % (atom(c[0]), atom(m[0])), "Self"
        if k == "not":
            t, ty = self.ex(e[1], env, "bool", wr)
            if ty != "bool":
                raise Refuse("`!` on a %s" % show(ty))
            return "(negb %s)" % atom(t), "bool"
        if k == "neg":
            t, ty = self.ex(e[1], env, want, wr)
            if ty == "i32":
                return "(- %s)%%Z" % atom(t), ty
            if ty == "f64":
                return "(opp N %s)" % atom(t), ty
            raise Refuse("unary minus on a %s" % show(ty))
        if k == "logic":
            a, ta = self.ex(e[2], env, "bool", wr)
            b, tb = self.ex(e[3], env, "bool", None)
            if ta != "bool" or tb != "bool":
                raise Refuse("`%s` on %s and %s" % (e[1], show(ta), show(tb)))
            return "(%s %s %s)" % ("orb" if e[1] == "||" else "andb", atom(a), atom(b)), "bool"
        if k == "bin":
            (a, ta), (b, tb) = self.pair(e[2], e[3], env, wr)
            if ta != tb:
                raise Refuse("`%s` on %s and %s" % (e[1], show(ta), show(tb)))
            if ta == "usize" and e[1] == "-":
                self.effect(wr, "a usize subtraction (it may underflow)")
                pan = self.panic()
                wr.append(lambda rest: "if Nat.ltb %s %s then\n%s\nelse\n%s" % (atom(a), atom(b), ind(pan), rest))
                return "(Nat.sub %s %s)" % (atom(a), atom(b)), "usize"
            if ta in ("i32", "f64"):
                return self.arith(e[1] + "=", a, b, ta), ta
            raise Refuse("arithmetic `<%s> %s <%s>`" % (show(ta), e[1], show(tb)))
        if k == "cmp":
            (a, ta), (b, tb) = self.pair(e[2], e[3], env, wr)
            a, b, op = atom(a), atom(b), e[1]
            if op in ("==", "!="):
                if ta in TEXT and tb in TEXT:
                    t = "(str_eqb %s %s)" % (a, b)
                elif ta == tb and ta in ("u16", "u8"):
                    t = "(N.eqb %s %s)" % (a, b)
                elif ta == tb == "usize":
                    t = "(Nat.eqb %s %s)" % (a, b)
                elif ta == tb == "i32":
                    t = "(Z.eqb %s %s)" % (a, b)
                elif ta == tb == "bool":
                    t = "(Bool.eqb %s %s)" % (a, b)
                elif ta == tb == "Spec":
                    self.espec("eq")
                    t = "(eq_gen PERIODIC_TABLE uni_alphabetic %s %s)" % (a, b)
                elif ta == "Spec" and tb in TEXT:
                    self.espec("eq_str")
                    t = "(eq_str_gen PERIODIC_TABLE uni_alphabetic %s %s)" % (a, b)
                else:
                    raise Refuse("`%s` on %s and %s" % (op, show(ta), show(tb)))
                return (t if op == "==" else "(negb %s)" % t), "bool"
            if ta == tb and ta in ("u16", "u8", "usize", "i32"):
                m = {"usize": "Nat", "i32": "Z"}.get(ta, "N")
                return {"<": "(%s.ltb %s %s)" % (m, a, b), "<=": "(%s.leb %s %s)" % (m, a, b),
                        ">": "(%s.ltb %s %s)" % (m, b, a), ">=": "(%s.leb %s %s)" % (m, b, a)}[op], "bool"
            if ta == tb == "f64":
                return {"<": "(ltb N %s %s)" % (a, b), "<=": "(leb N %s %s)" % (a, b),
                        ">": "(ltb N %s %s)" % (b, a), ">=": "(leb N %s %s)" % (b, a)}[op], "bool"
            raise Refuse("`%s` on %s and %s" % (op, show(ta), show(tb)))
        if k == "cast":
            t, ty = self.ex(e[1], env, None, wr)
            to = self.resolve(e[2])
            if ty == "i32" and to == "f64":
                return "(of_Z N %s)" % atom(t), "f64"
            if ty == to:
                return t, ty
            raise Refuse("`<%s> as %s`" % (show(ty), show(to)))
        if k == "field":
            a, ta = self.ex(e[1], env, None, wr)
            a = atom(a)
            table = {("Self", "composition"): ("(composition %s)", self.comp_ty()), ("Self", "mass_cache"): ("(mass_cache %s)", ("option", "f64")),
                     ("Spec", "element"): ("(sp_element %s)", "Elem"), ("Spec", "isotope"): ("(sp_isotope %s)", "u16"),
                     ("Elem", "symbol"): ("(codes (sym %s))", "String"), ("Elem", "isotopes"): ("(isos %s)", "Isos"),
                     ("Elem", "most_abundant_isotope"): ("(mai %s)", "u16"),
                     ("Elem", "most_abundant_mass"): ("(of_dec N (mam %s) 6)", "f64"), ("Iso", "mass"): ("(of_dec N (mass %s) 6)", "f64")}
            if (ta, e[2]) not in table:
                raise Refuse("field `.%s` of a %s" % (e[2], show(ta)))
            return table[(ta, e[2])][0] % a, table[(ta, e[2])][1]
        if k == "tfield":
            a, ta = self.ex(e[1], env, None, wr)
            if not (isinstance(ta, tuple) and ta[0] == "tuple" and len(ta[1]) == 2 and e[2] in (0, 1)):
                raise Refuse("`.%d` of a %s" % (e[2], show(ta)))
            return "(%s %s)" % ("fst" if e[2] == 0 else "snd", atom(a)), ta[1][e[2]]
        if k == "call":
            path, args = e[1], e[2]
            if len(path) == 2 and path[0] == SPEC and path[1] in ("new", "parse", "parse_with", "quick_check_str"):
                return self.call_espec(path[1], args, env, wr)
            if len(path) == 2 and path[0] in ("Self", self.world.struct) and path[1] in self.world.by_src:
                return self.call_own(self.overload(path[1], args, env), None, args, env, wr)
            raise Refuse("call of `%s`" % "::".join(path))
        if k == "mcall":
            return self.mcall(e, env, want, wr)
        if k == "index":
            b, tb = self.ex(e[1], env, None, wr)
            if isinstance(tb, tuple) and tb[0] == "vec":
                i, ti = self.ex(e[2], env, "usize", wr)
                look, ity, ok = "nth_error %s %s" % (atom(b), atom(i)), tb[1], ti == "usize"
            elif tb == "Isos":
                i, ti = self.ex(e[2], env, "u16", wr)
                look, ity, ok = "assoc_get %s %s" % (atom(i), atom(b)), "Iso", ti == "u16"
            else:
                raise Refuse("indexing a %s" % show(tb))
            if not ok:
                raise Refuse("index of type %s" % show(ti))
            self.effect(wr, "an index (it may panic)")
            t, pan = self.fresh("t"), self.panic()
            wr.append(lambda rest: "match %s with\n| None => %s\n| Some %s =>\n%s\nend" % (look, pan, t, ind(rest)))
            return t, ity
        if k == "try":
            a, ta = self.ex(e[1], env, None, wr)
            if not (isinstance(ta, tuple) and ta[0] == "option" and isinstance(self.rty, tuple) and self.rty[0] == "option"):
                raise Refuse("`?` on a %s in a function returning %s" % (show(ta), show(self.rty)))
            self.effect(wr, "`?`")
            if self.loop_state is not None:
                raise Refuse("`?` inside a loop")
            t, out = self.fresh("t"), self.ret("None")
            wr.append(lambda rest: "match %s with\n| None => %s\n| Some %s =>\n%s\nend" % (strip(a), out, t, ind(rest)))
            return t, ta[1]
        if k in ("if", "iflet", "match", "blockexpr"):
            return self.inner_branch(e, env, want, wr)
        if k == "closure":
            raise Refuse("a closure that is not the argument of find / position / all / any / map / for_each")
        if k in ("return", "macro", "assign"):
            raise Refuse("`%s` inside an expression" % k)
        raise Refuse("expression form %r" % k)

    def inner_branch(self, e, env, want, wr):
        """an if / match / block inside an expression: inline when its branches are plain values, else through a join point"""
        if e[0] == "if" and e[3] is not None and not e[2][0] and not e[3][0] and e[2][1] is not None and e[3][1] is not None:
            saved, calls = self.ntemp, list(self.calls)
            try:
                c, tc = self.ex(e[1], env, "bool", wr)
                w = want if want is not None else self.type_of(e, env)
                a, ta = self.ex(e[2][1], env, w, None)
                b, tb = self.ex(e[3][1], env, w or ta, None)
                if tc != "bool":
                    raise Refuse("`if` on a %s" % show(tc))
                return "(if %s then %s else %s)" % (strip(c), strip(a), strip(b)), unify(ta, tb)
            except Refuse:
                self.ntemp, self.calls = saved, calls
        self.effect(wr, "a branching expression with effects")
        ty = self.type_of(e, env, want)
        if not known(ty):
            raise Refuse("the type of a branching expression is not determined")
        t = self.fresh("t")
        wr.append(lambda rest: self.value(e, env, ty, Cont(lambda vt, vty: "let %s := %s in\n%s" % (t, vt, rest))))
        return t, ty

    def mcall(self, e, env, want, wr):
        _, recv, m, turbo, args = e
        n = len(args)
        g = self.own_method(e, env)
        if g is not None:
            return self.call_own(g, env[unparen(recv)[1]]["coq"], args, env, wr)
        a, ta = self.ex(recv, env, None, wr)
        a = atom(a)

        def arg(i, w=None):
            t, ty = self.ex(args[i], env, w, wr)
            return atom(t), ty

        def clos(i, pty):
            if args[i][0] != "closure":
                raise Refuse("`.%s(..)` with something else than a closure" % m)
            return self.closure_fn(args[i], pty, env)
        seq = isinstance(ta, tuple) and ta[0] in ("iter", "vec")
        if seq or ta == "HMap":
            item = ta[1] if seq else ENTRY
            if m == "iter" and n == 0 and (ta == "HMap" or ta[0] == "vec"):
                return a, ("iter", item)
            if m == "iter_mut" and n == 0 and unparen(recv) == ("field", ("var", "self"), "composition"):
                if self.selfkind != "mut":
                    raise Refuse("`iter_mut()` in a function that does not take `&mut self`")
                return "tt", "IterMut"
            if m == "len" and n == 0:
                return "(length %s)" % a, "usize"
            if m == "is_empty" and n == 0:
                return "(Nat.eqb (length %s) 0%%nat)" % a, "bool"
        if seq:
            item = ta[1]
            if m == "enumerate" and n == 0 and ta[0] == "iter":
                return "(enumerate %s)" % a, ("iter", ("tuple", ["usize", item]))
            if m in ("find", "position", "all", "any") and n == 1 and ta[0] == "iter":
                f, tf = clos(0, item)
                if tf != "bool":
                    raise Refuse("`.%s(..)` with a closure to %s" % (m, show(tf)))
                if m == "find":
                    return "(find %s %s)" % (f, a), ("option", item)
                if m == "position":
                    return "(position %s %s)" % (f, a), ("option", "usize")
                return "(%s %s %s)" % ("forallb" if m == "all" else "existsb", f, a), "bool"
            if m == "get" and n == 1 and ta[0] == "vec":
                i, ti = arg(0, "usize")
                if ti != "usize":
                    raise Refuse("get(<%s>)" % show(ti))
                return "(nth_error %s %s)" % (a, i), ("option", item)
            if m == "get_mut" and n == 1 and ta[0] == "vec" and item == ENTRY and unparen(recv) == ("field", ("var", "self"), "composition"):
                i, ti = arg(0, "usize")
                if ti != "usize":
                    raise Refuse("get_mut(<%s>)" % show(ti))
                return "(vec_get_mut %s %s)" % (i, a), ("option", ("tuple", ["Spec", "Place"]))
        if ta == "HMap":
            if m in ("get", "get_mut", "contains_key", "entry") and n == 1:
                kx, tk = arg(0, "Spec")
                if tk != "Spec":
                    raise Refuse("`.%s(<%s>)` on the map" % (m, show(tk)))
                if m == "get":
                    return "(hm_get %s %s)" % (kx, a), ("option", "i32")
                if m == "contains_key":
                    return "(hm_contains_key %s %s)" % (kx, a), "bool"
                if unparen(recv) != ("field", ("var", "self"), "composition") or self.selfkind != "mut":
                    raise Refuse("`.%s(..)` on something else than the map of a mutable `self`" % m)
                if m == "get_mut":
                    return "(hm_get_mut %s %s)" % (kx, a), ("option", "Place")
                return kx, "Entry"
        if isinstance(ta, tuple) and ta[0] == "option":
            if m in ("is_some", "is_none") and n == 0:
                return "(match %s with Some _ => %s | None => %s end)" % ((a,) + (("true", "false") if m == "is_some" else ("false", "true"))), "bool"
            if m in ("copied", "cloned") and n == 0:
                return a, ta
            if m == "unwrap_or" and n == 1:
                d, td = arg(0, ta[1])
                return "(unwrap_or %s %s)" % (a, d), unify(ta[1], td)
            if m == "map" and n == 1:
                f, tf = clos(0, ta[1])
                return "(option_map %s %s)" % (f, a), ("option", tf)
            if m in ("unwrap", "expect") and n == (0 if m == "unwrap" else 1):
                self.effect(wr, "`.%s()` (it may panic)" % m)
                t, pan = self.fresh("t"), self.panic()
                wr.append(lambda rest: "match %s with\n| None => %s\n| Some %s =>\n%s\nend" % (strip(a), pan, t, ind(rest)))
                return t, ta[1]
        if isinstance(ta, tuple) and ta[0] == "result":
            if m in ("unwrap", "expect") and n == (0 if m == "unwrap" else 1):
                self.effect(wr, "`.%s()` (it may panic)" % m)
                t, pan = self.fresh("t"), self.panic()
                wr.append(lambda rest: "match %s with\n| EOk %s =>\n%s\n| _ => %s\nend" % (strip(a), t, ind(rest), pan))
                return t, ta[1]
        if ta in TEXT and m == "parse" and n == 0:
            if turbo is None or self.resolve(turbo) != "Spec":
                raise Refuse("`parse` without `::<%s>`" % SPEC)
            self.espec("from_str")
            return "(from_str_gen PERIODIC_TABLE uni_alphabetic %s)" % a, ("result", "Spec", "Err")
        if ta == "f64":
            if m == "mul_add" and n == 2:
                (x, tx), (y, ty) = arg(0, "f64"), arg(1, "f64")
                if tx != "f64" or ty != "f64":
                    raise Refuse("mul_add(<%s>, <%s>)" % (show(tx), show(ty)))
                return "(fma N %s %s %s)" % (a, x, y), "f64"
            if m == "abs" and n == 0:
                return "(abs N %s)" % a, "f64"
        if ta == "Table" and m == "get" and n == 1:
            if not self.world.table_get_ok:
                raise Refuse("PeriodicTable::get is not `self.elements.get(symbol)`")
            s, ts = arg(0)
            if ts not in TEXT:
                raise Refuse("PeriodicTable::get(<%s>)" % show(ts))
            return "(tbl_find %s %s)" % (s, a), ("option", "Elem")
        raise Refuse("method `.%s(..)` on a %s" % (m, show(ta)))

    # ---- the definition
    def translate(self):
        env, binders = {}, []
        if self.selfkind is not None:
            env["self"] = {"ty": "Self", "coq": "self", "mut": self.selfkind == "mut"}
            binders.append("(self : ccomp F)")
        for a, ty in self.params:
            env = self.declare(env, a, ty)
            binders.append("(%s : %s)" % (env[a]["coq"], self.coq_ty(ty)))
        text = self.seq(self.body[0], self.body[1], env, self.rty, self.retk())
        rty = "pres %s" % atom(self.coq_ty(self.rty))
        if self.selfkind == "mut":
            rty = "ccomp F * " + rty
        return "Definition %s_%s_gen {F : Type} (N : Num F) (PERIODIC_TABLE : ptable) (uni_alphabetic : char -> bool)%s%s : %s :=\n%s." % (
            self.P, self.gname, " (shuffle : sents -> sents)" if self.P == "m" else "",
            "".join(" " + b for b in binders), rty, ind(text))


# ------------------------------------------------------------------ the functions of one file, translated on demand
V_WANTED = ["new", "find", "find_str", "get_str", "get", "set", "inc", "iter", "iter_mut", "get_ref", "into_inner", "calc_mass",
            "mass", "fmass", "has_mass_cached", "index", "index_mut", "index_str", "index_mut_str", "add_from", "sub_from",
            "mul_by", "len", "is_empty"]
M_WANTED = ["new", "get", "set", "inc", "iter", "iter_mut", "into_inner", "calc_mass", "mass", "fmass", "has_mass_cached",
            "add_from", "sub_from", "mul_by", "len", "is_empty", "index", "index_mut", "plain_key", "get_str", "get_str_mut",
            "inc_str", "index_str", "index_mut_str"]


class World:
    def __init__(self, prefix, struct, fns, consts, uses, derives_default, espec, table_get_ok):
        self.prefix, self.struct, self.src, self.consts, self.uses = prefix, struct, fns, consts, uses
        self.derives_default, self.espec, self.table_get_ok = derives_default, espec, table_get_ok
        self.done, self.skipped, self.emitted, self.active = {}, {}, [], []
        self.by_src = {}
        for g, (_, _, _, srcname) in fns.items():
            self.by_src.setdefault(srcname, []).append(g)

    def attempt(self, name):
        if name in self.done or name in self.skipped:
            return
        if name not in self.src:
            self.skipped[name] = "no such function in the source"
            return
        if name in self.active:
            raise Refuse("recursive call cycle through `%s`" % name)
        self.active.append(name)
        try:
            head, body, assoc, _ = self.src[name]
            sig = Parser(head).signature()
            ast = Parser([("op", "{")] + body + [("op", "}")]).block()
            f = Fn(name, sig, ast, assoc, self)
            text = f.translate()
            self.done[name] = {"selfkind": f.selfkind, "params": f.params, "rty": f.rty, "text": text, "calls": f.calls}
            self.emitted.append(name)          # callees were appended while translating the body: callee first
        except Refuse as e:
            self.skipped[name] = str(e)
        finally:
            self.active.pop()

    def sig(self, name):
        self.attempt(name)
        if name in self.skipped:
            raise Refuse("uses `%s`, which is skipped (%s)" % (name, self.skipped[name]))
        return self.done[name]


def translate():
    try:
        _, espec = gen_espec.translate()
        table_get_ok = espec.table_get_ok
    except (Structure, OSError):
        espec, table_get_ok = None, False
    worlds = []
    for prefix, rel, struct in FILES:
        fns, consts, uses, dd = file_structure(prefix, rel, struct)
        w = World(prefix, struct, fns, consts, uses, dd, espec, table_get_ok)
        w.wanted = V_WANTED if prefix == "v" else M_WANTED
        for name in w.wanted:
            w.attempt(name)
        worlds.append(w)
    out = ["(* GENERATED by tools/gen_comp.py from src/composition_list.rs (v_..) and src/composition_map.rs (m_..) -- do not edit *)",
           "From Coq Require Import List ZArith NArith Bool Arith.",
           "From CE Require Import Num Str TableTypes TableModel Comp ESpec ImpL ImpE ImpC ESpecGen.",
           "Import ListNotations.", "Local Open Scope list_scope.", ""]
    for w in worlds:
        for n in w.emitted:
            out.append(w.done[n]["text"])
            out.append("")
    q = lambda names: "[" + "; ".join('"%s"' % n for n in names) + "]%string"
    out.append("(* what the translator did with the functions it was asked for *)")
    out.append("From Coq Require Import String.")
    out.append("Definition comp_gen_translated : list string := %s." % q(
        ["%s_%s" % (w.prefix, n) for w in worlds for n in w.wanted if n in w.done]))
    out.append("Definition comp_gen_skipped : list string := %s." % q(
        ["%s_%s" % (w.prefix, n) for w in worlds for n in w.wanted if n in w.skipped]))
    return "\n".join(out) + "\n", worlds


# ------------------------------------------------------------------ which ties of CompTie.v still hold
def check_ties(worlds, field=False, only=None):
    """compile CompTie.v block by block: common text + the block of one function + the blocks it needs
    (field=True: in field mode, see tools/tie_modes.py)"""
    import tie_modes
    if not tie_modes.compile_deps(COQ, ["model/TieTac.v", "model/ImpC.v", "gen/CompGen.v"]):
        return 1
    wanted = ["%s_%s" % (w.prefix, n0) for w in worlds for n0 in w.wanted]
    skipped = {"%s_%s" % (w.prefix, n0): w.skipped[n0] for w in worlds for n0 in w.wanted if n0 in w.skipped}
    bad = tie_modes.check_blocks(COQ, TIE, wanted, skipped, field=field, only=only, stem="CompTie")
    return 1 if bad else 0


def main():
    try:
        text, worlds = translate()
    except (Structure, OSError) as e:
        print("gen_comp: refused: %s" % e)
        return 3
    old = open(OUT).read() if os.path.exists(OUT) else None
    if old != text:
        open(OUT, "w").write(text)
    nskip = 0
    for w in worlds:
        for n in w.wanted:
            if n in w.skipped:
                nskip += 1
                print("skipped %s_%s: %s" % (w.prefix, n, w.skipped[n]))
    print("gen_comp: %d functions translated (%s), %d skipped%s" % (
        sum(len(w.emitted) for w in worlds), ", ".join("%s_%s" % (w.prefix, n) for w in worlds for n in w.emitted), nskip,
        "" if old == text else " [rewritten]"))
    import tie_modes
    ties, field, only = tie_modes.flags(sys.argv[1:])
    if ties:
        return check_ties(worlds, field, only)
    return 0


if __name__ == "__main__":
    sys.exit(main())
