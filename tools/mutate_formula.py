#!/usr/bin/env python3
"""Robustness demonstration for tools/gen_formula.py: apply one edit at a time to a COPY of $VERIF_REPO/src/formula.rs,
regenerate coq/gen/FormulaGen.v from it and run the block-by-block tie check.  [a] semantics-changing edits (the ties of
the affected units must FAIL), [b] harmless edits inside the subset (all ties OK), [c] rewrites outside the subset (the
unit and what needs it SKIPPED), [d] broken file structure (exit 3).  At the end FormulaGen.v is regenerated from the
original source.      python3 tools/mutate_formula.py [a] [b] [c] [d]"""
import os, re, subprocess, sys, tempfile
ROOT = os.path.dirname(os.path.dirname(os.path.abspath(__file__)))
ORIG_REPO = os.environ.get("VERIF_REPO", "/repo")
ORIG = open(ORIG_REPO + "/src/formula.rs", encoding="utf-8").read()
MUT = tempfile.mkdtemp(prefix="formula_mut_")
os.makedirs(MUT + "/src", exist_ok=True)


def sub1(src, old, new, nth=1):
    parts = src.split(old)
    assert len(parts) > nth, (old, len(parts))
    return old.join(parts[:nth]) + new + old.join(parts[nth:])


def swap_arms(src):
    # swap the bodies of the Isotope and Group arms of the loop: exchange the two patterns
    a, b = "FormulaParserState::Group => {\n                    self.handle", "FormulaParserState::Isotope => {\n                    if c == ']'"
    assert a in src and b in src
    src = src.replace(a, "@@A@@").replace(b, "@@B@@")
    return src.replace("@@A@@", "FormulaParserState::Isotope => {\n                    self.handle").replace("@@B@@", "FormulaParserState::Group => {\n                    if c == ']'")


def reorder_finish_itc(src):
    old = """                let elt = self.parse_element_from_string(string, periodic_table)?;
                let isotope: u16 = match string[self.isotope_start..self.isotope_end].parse::<u16>()
                {
                    Ok(val) => val,
                    Err(_msg) => {
                        return Err(FormulaParserError::IsotopeCountMalformed);
                    }
                };
"""
    new = """                let isotope: u16 = match string[self.isotope_start..self.isotope_end].parse::<u16>()
                {
                    Ok(val) => val,
                    Err(_msg) => {
                        return Err(FormulaParserError::IsotopeCountMalformed);
                    }
                };
                let elt = self.parse_element_from_string(string, periodic_table)?;
"""
    assert old in src
    return src.replace(old, new)


CASES = [
    # (kind, description, function source -> source)
    ("a", "Count step: `isotope_end != isotope_start` -> `isotope_end > isotope_start`",
     lambda s: sub1(s, "if self.isotope_end != self.isotope_start {", "if self.isotope_end > self.isotope_start {")),
    ("a", "Count step: reset of isotope_start dropped",
     lambda s: sub1(s, "                        self.isotope_start = 0;\n", "")),
    ("a", "IsotopeToCount step: wrong error variant (IsotopeCountMalformed -> InvalidElement) for a non-delimiter",
     lambda s: sub1(s, "                            return Err(FormulaParserError::IsotopeCountMalformed);\n                        }\n                    }\n                }\n                FormulaParserState::GroupToGroupCount",
                    "                            return Err(FormulaParserError::InvalidElement);\n                        }\n                    }\n                }\n                FormulaParserState::GroupToGroupCount")),
    ("a", "New: is_ascii_alphabetic/is_ascii_uppercase -> is_alphabetic/is_uppercase (Unicode)",
     lambda s: sub1(s, "if c.is_ascii_alphabetic() && c.is_ascii_uppercase() {\n                        self.element_start = i;\n                        self.state = FormulaParserState::Element;\n                    } else if c == '(' {\n                        self.paren_stack += 1;",
                    "if c.is_alphabetic() && c.is_uppercase() {\n                        self.element_start = i;\n                        self.state = FormulaParserState::Element;\n                    } else if c == '(' {\n                        self.paren_stack += 1;")),
    ("a", "Element: is_ascii_alphabetic -> is_alphabetic (Unicode letters continue a symbol)",
     lambda s: sub1(s, "                    if c.is_ascii_alphabetic() {\n                        if c.is_uppercase() {", "                    if c.is_alphabetic() {\n                        if c.is_uppercase() {")),
    ("a", "New: `group_start = i + 1` -> `group_start = i`",
     lambda s: sub1(s, "self.group_start = i + 1;", "self.group_start = i;")),
    ("a", "loop: bodies of the Group and Isotope arms swapped", swap_arms),
    ("a", "handle_group_state: `paren_stack == 0` -> `paren_stack <= 0`",
     lambda s: sub1(s, "if self.paren_stack == 0 {", "if self.paren_stack <= 0 {")),
    ("a", "end of input, GroupCount: GroupCountMalformed -> ElementCountMalformed",
     lambda s: sub1(s, "return Err(FormulaParserError::GroupCountMalformed);", "return Err(FormulaParserError::ElementCountMalformed);")),
    ("a", "parse_element_count: reset of count_end dropped",
     lambda s: sub1(s, "        self.count_end = 0;\n", "")),
    ("a", "Count step: `paren_stack = 1` -> `paren_stack += 1`",
     lambda s: sub1(s, "self.paren_stack = 1;", "self.paren_stack += 1;")),
    ("a", "end of input, IsotopeToCount: element look-up moved after the isotope parse (which failure wins)", reorder_finish_itc),
    ("a", "Isotope step: `]` -> `)` as the closing character",
     lambda s: sub1(s, "if c == ']' {", "if c == ')' {")),
    ("a", "parse_element_from_string: slice element_start..element_end -> element_start..count_end",
     lambda s: sub1(s, "&string[self.element_start..self.element_end]", "&string[self.element_start..self.count_end]")),
    ("a", "enum FormulaParserError: a variant added",
     lambda s: sub1(s, "    InvalidElement,\n}", "    InvalidElement,\n    Other,\n}")),
    ("a", "#[default] moved from New to Element",
     lambda s: sub1(s, "    #[default]\n    New,\n    Element,", "    New,\n    #[default]\n    Element,")),
    ("a", "end of input: the `_` arm returns InvalidStart",
     lambda s: sub1(s, "_ => return Err(FormulaParserError::IncompleteFormula),", "_ => return Err(FormulaParserError::InvalidStart),")),
    ("a", "GroupCount step: group multiplied after the count is taken from element count slice (parse_group_count -> parse_element_count)",
     lambda s: sub1(s, "let group_count: i32 = match self.parse_group_count(string) {", "let group_count: i32 = match self.parse_element_count(string) {")),
    # ---- harmless edits inside the subset
    ("b", "Element: `c.is_uppercase()` -> `c.is_ascii_uppercase()` (same under is_ascii_alphabetic)",
     lambda s: sub1(s, "if c.is_uppercase() {", "if c.is_ascii_uppercase() {")),
    ("b", "locals renamed, comments added, statements reformatted",
     lambda s: s.replace("elt_sym", "symbol_text").replace("count_parse", "parsed").replace("let n = string.len();", "/* the length */ let n =\n    string.len(); // bytes")),
    ("b", "GroupToGroupCount: `if !c.is_numeric() {A} else {B}` -> `if c.is_numeric() {B} else {A}`",
     lambda s: (lambda m: s[:m.start()] + "if c.is_numeric() {" + m.group(2) + "} else {" + m.group(1) + "}" + s[m.end():])(
         re.search(r"if !c\.is_numeric\(\) \{(\n                        let group = Self::parse_with_table\(.*?)\} else \{(\n                        self\.group_count_start = i;.*?\n                    )\}", s, re.S))),
    ("b", "`self.paren_stack += 1` -> `self.paren_stack = self.paren_stack + 1` everywhere",
     lambda s: s.replace("self.paren_stack += 1;", "self.paren_stack = self.paren_stack + 1;")),
    ("b", "New: `let next = i + 1; self.group_start = next;`",
     lambda s: sub1(s, "self.group_start = i + 1;", "let next = i + 1;\n                        self.group_start = next;")),
    ("b", "independent assignments reordered (New: state before element_start; parse_element_count: count_end before count_start)",
     lambda s: sub1(sub1(s, "                        self.element_start = i;\n                        self.state = FormulaParserState::Element;", "                        self.state = FormulaParserState::Element;\n                        self.element_start = i;"),
                    "        self.count_start = 0;\n        self.count_end = 0;", "        self.count_end = 0;\n        self.count_start = 0;")),
    ("b", "check_isotope: `isotope == 0 || ..` with an early `return Err` instead of if/else value",
     lambda s: sub1(s, """        if isotope == 0 || elt.isotopes.contains_key(&isotope) {
            Ok(isotope)
        } else {
            Err(FormulaParserError::IsotopeCountMalformed)
        }""", """        if isotope == 0 || elt.isotopes.contains_key(&isotope) {
        } else {
            return Err(FormulaParserError::IsotopeCountMalformed);
        }
        Ok(isotope)""")),
    ("b", "Isotope arm: nested `else { if .. }` instead of `else if`",
     lambda s: sub1(s, """                    } else if !c.is_numeric() {
                        return Err(FormulaParserError::IsotopeCountMalformed);
                    }""", """                    } else {
                        if !c.is_numeric() {
                            return Err(FormulaParserError::IsotopeCountMalformed);
                        }
                    }""")),
    # ---- out-of-subset rewrites
    ("c", "parse_element_count rewritten with str::get and a closure",
     lambda s: sub1(s, "let count_parse = string[self.count_start..self.count_end].parse::<i32>();",
                    "let count_parse = string.get(self.count_start..self.count_end).map(|t| t.parse::<i32>()).unwrap();")),
    ("c", "Isotope arm rewritten as `match c { ']' => .., _ => .. }`",
     lambda s: sub1(s, """                    if c == ']' {
                        self.isotope_end = i;
                        self.state = FormulaParserState::IsotopeToCount;
                    } else if !c.is_numeric() {
                        return Err(FormulaParserError::IsotopeCountMalformed);
                    }""", """                    match c {
                        ']' => {
                            self.isotope_end = i;
                            self.state = FormulaParserState::IsotopeToCount;
                        }
                        _ => {
                            if !c.is_numeric() {
                                return Err(FormulaParserError::IsotopeCountMalformed);
                            }
                        }
                    }""")),
    ("c", "the loop rewritten as `while let Some((i, c)) = it.next()`",
     lambda s: sub1(s, "for (i, c) in string.char_indices() {", "let mut it = string.char_indices();\n        while let Some((i, c)) = it.next() {")),
    ("c", "handle_group_state: usize subtraction `i - 1`",
     lambda s: sub1(s, "self.group_end = i;", "self.group_end = i - 1;")),
    # ---- broken structure
    ("d", "struct FormulaParser: field group_end removed",
     lambda s: sub1(s, "    pub group_end: usize,\n", "")),
    ("d", "unbalanced brace",
     lambda s: sub1(s, "    pub fn handle_group_state(&mut self, c: char, i: usize) {", "    pub fn handle_group_state(&mut self, c: char, i: usize) {{")),
]


def run(src):
    open(MUT + "/src/formula.rs", "w", encoding="utf-8").write(src)
    env = dict(os.environ, VERIF_REPO=MUT)
    r = subprocess.run([sys.executable, ROOT + "/tools/gen_formula.py", "--ties"], env=env, stdout=subprocess.PIPE, stderr=subprocess.STDOUT, universal_newlines=True)
    return r.returncode, r.stdout


def main():
    only = sys.argv[1:]
    for kind, desc, f in CASES:
        if only and kind not in only:
            continue
        src = f(ORIG)
        assert src != ORIG, desc
        code, out = run(src)
        failed = [l.split(":")[0][4:] for l in out.splitlines() if l.startswith("tie ") and ": FAILED" in l]
        skipped = [l.split(":")[0][4:] for l in out.splitlines() if l.startswith("tie ") and ": SKIPPED" in l]
        ok = [l for l in out.splitlines() if l.startswith("tie ") and l.endswith(": OK")]
        short = lambda xs: ", ".join(x.replace("parse_formula_with_table_generic", "<main>") for x in xs) or "-"
        print("[%s] %s\n     exit %d; OK %d; FAILED: %s; SKIPPED: %s" % (kind, desc, code, len(ok), short(failed), short(skipped)))
        if code == 3 or (not ok and not failed and not skipped):
            print("     " + out.strip().splitlines()[-1][:200])
        if kind == "c":
            for l in out.splitlines():
                if l.startswith("skipped "):
                    print("     " + l.replace("parse_formula_with_table_generic", "<main>")[:220])
                    break
    code, out = run(ORIG)
    print("[restore] original source: exit %d, %s" % (code, out.splitlines()[0]))


main()
