#!/usr/bin/env python3
"""Translate the methods of `impl TheoreticalIsotopicPattern` (and `Peak`'s `PartialEq::eq`) of
src/isotopic_pattern/peak.rs into a SHALLOW embedding in Gallina over the numeric interface `Num`
-> coq/gen/PeakGen.v.  coq/proofs/PeakTie.v then proves that the hand-written model coq/model/Peak.v computes exactly
what this translation computes.  Same style as gen_poisson.py (state-passing, Gallina shadowing = the new value); the
loop combinators over lists are those of coq/model/ImpL.v.

Every method is translated INDEPENDENTLY: a method whose body is outside the subset is skipped
(`skipped <name>: <construct>` on stdout, its name in `peak_gen_skipped` in PeakGen.v), and so is a method that calls
a skipped one.  Only an unparseable FILE STRUCTURE (unbalanced braces, no `struct Peak { mz, intensity }`, no
`struct TheoreticalIsotopicPattern { peaks, origin }`, no `impl TheoreticalIsotopicPattern`) makes the translator
exit with status 3.

  python3 tools/gen_peak.py            regenerate coq/gen/PeakGen.v (rewritten only when its content changes)
  python3 tools/gen_peak.py --ties     additionally compile coq/proofs/PeakTie.v block by block (a block = the lemma
                                       of one method, between `(* BEGIN TIE m (needs: ...) *)` and `(* END TIE m *)`)
                                       and print `tie <m>: OK | FAILED | SKIPPED` for every method
  python3 tools/gen_peak.py --ties --field   the same in FIELD MODE (tools/tie_modes.py, coq/model/TieTac.v): the ties
                                       are compiled with `OF : OField N` in context and `leaf := leaf_field`, so they hold
                                       when the source differs from the model by ordered-field laws only
  --only=a,b                           (with --ties) only the named methods

TRANSLATION
  struct TheoreticalIsotopicPattern -> Peak.tip (fields peaks, origin), struct Peak -> Peak.peak (mz, intensity ~ inten)
  f64 -> F, usize -> nat, bool -> bool, PeakList / Vec<Peak> / &[Peak] -> list peak, Range<usize> parameter r -> two nat
  parameters r_start r_end; `self`, `&self`, `mut self` -> a parameter `self : tip` (Peak::eq: `self other : peak`)
  * `let [mut] x = e;`                         -> let x := e in ...     (shadowing allowed in the outermost block only)
  * `x op= e;` `x.f op= e;` `self.f op= e;`    -> let x := <record rebuilt with the new field> in ...
  * `v.push(e);`  `v.truncate(k);`             -> let v := v ++ [e] in / let v := firstn k v in   (v a local or self.peaks)
  * `if c { A } else { B }` (no exit)          -> let '(xs) := (if c then A;(xs) else B;(xs)) in ...
  * `if c { ...; return e; }` / `{...; break;}`-> if c then ...; EXIT else rest       (the branch must END in the exit)
  * `for x in IT { body }`                     -> let '(xs) := for_each IT (fun x '(xs) => body; (xs)) (xs) in ...
  * the same with `break`                      -> for_each_brk IT (fun x '(xs) => ... inl (xs) | inr (xs)) (xs)
  * `for (i, x) in IT.enumerate() {..}`        -> the same over `enumerate IT`, binder '(i, x)
  * `for x in IT_MUT { x.f op= e; }`           -> let v := for_mut (fun x => body; x) v in ...   (body assigns only x)
      IT      = v.iter() | &v | v.into_iter() | v | v.drain(..) (then v := []) | self / &self (through the file's
                `impl IntoIterator for [&]TheoreticalIsotopicPattern`, whose body must be self.peaks.iter()/into_iter())
      IT_MUT  = v.iter_mut() | &mut v | &mut self (through `impl IntoIterator for &mut TheoreticalIsotopicPattern`)
  * `it.map(|p| e).sum()` (f64)                -> fsum N (map (fun p => e) it)       (Iterator::sum starts from sum0 N)
  * `let s = &v[r];` (r: Range<usize>)         -> match slice_range v r_start r_end with None => Panic | Some s => .. end
                                                  and the method returns `Peak.res tip` (results wrapped in `Ok`)
  * `v.len()` -> length v, `n.saturating_sub(k)` -> Nat.sub n k, `s.to_vec()` -> s, `*p` -> p, `PeakList::with_capacity(n)`
    / `PeakList::new()` -> nil, struct literals -> Peak.mkTip / Peak.mkPeak, `Self::new(..)` / `x.m(..)` on a pattern
    -> m_gen N x .. (the callee is translated too: `len`, `new`, ...), 1.0 -> one N, 0.0 -> zero N, other float
    literals as in gen_src.py, `a || b` -> orb, `a && b` -> andb (operands are pure), comparisons as in gen_poisson.py.

GRAMMAR of a method (comments and string literals are removed first)
  method  := attr* ['pub'] 'fn' name '(' selfp (',' param)* [','] ')' '->' type block
  selfp   := 'self' | '&' 'self' | 'mut' 'self'
  param   := name ':' ptype         ptype := 'f64' | 'usize' | 'PeakList' | 'Range' '<' 'usize' '>' | '&' 'Peak'
  type    := 'f64' | 'usize' | 'bool' | 'PeakList' | 'TheoreticalIsotopicPattern' | 'Self'
  block   := '{' stmt* [expr] '}'
  stmt    := 'let' ['mut'] name [':' type] '=' expr ';'
           | lval ('='|'+='|'-='|'*='|'/=') expr ';'           lval := name | name '.' field
           | lval '.' ('push'|'truncate') '(' expr ')' ';'      (lval a Vec)
           | 'if' expr block ['else' block]
           | 'return' expr ';' | 'break' ';'
           | 'for' pat 'in' iter block                          pat := ['mut'] name | '(' name ',' name ')'
  iter    := ['&' ['mut']] postfix
  expr    := and ('||' and)*      and := cmp ('&&' cmp)*      cmp := arith [('=='|'!='|'<'|'<='|'>'|'>=') arith]
  arith   := term (('+'|'-') term)*     term := unary (('*'|'/') unary)*
  unary   := '-' unary | '*' unary | '&' postfix | postfix
  postfix := primary ('.' name ['(' args ')'] | '[' expr ']')*
  primary := float | int | 'true' | 'false' | name | 'self' | '(' expr ')' | '..' (argument of drain only)
           | ('TheoreticalIsotopicPattern'|'Self'|'Peak') '{' field (',' field)* [','] '}'      field := name [':' expr]
           | ('TheoreticalIsotopicPattern'|'Self'|'PeakList'|'Vec') '::' name '(' args ')'
           | '|' name '|' expr                                  (argument of map only)
Typing is checked (f64 / usize / bool / Peak / pattern / Vec<Peak> / &[Peak] / references to these).  usize arithmetic
is `<e> + <literal>` only, with <e> bounded by a Vec length (a `.len()`, a `saturating_sub` of one, an `enumerate`
index, or a local that only ever holds such values): then the sum cannot overflow, and Gallina's nat agrees with
usize; `with_capacity` likewise takes only such an argument (no capacity overflow).  Nested loops, `return` inside a
loop, `break` inside an iter_mut loop, loops/ifs that assign no outer local, statements after `return`/`break`,
shadowing in a nested block and every other construct are refused (the method is skipped)."""
import os, re, subprocess, sys, tempfile
sys.path.insert(0, os.path.dirname(os.path.abspath(__file__)))
import gen_poisson
from gen_src import Refuse, float_lit
from gen_poisson import tokens, ind, strip, atom

REPO = os.environ.get("VERIF_REPO", "/repo")
COQ = os.path.join(os.path.dirname(os.path.dirname(os.path.abspath(__file__))), "coq")
OUT = os.path.join(COQ, "gen", "PeakGen.v")
TIE = os.path.join(COQ, "proofs", "PeakTie.v")
TIP = "TheoreticalIsotopicPattern"
WANTED = ["total", "scale_by", "normalize", "shift", "clone_shifted", "truncate_after", "ignore_below",
          "truncate_after_ignore_below_shift_normalize", "clone_drop_last", "slice_normalized", "peak_eq"]

RESERVED = gen_poisson.RESERVED | set("""for_each for_each_brk for_mut enumerate enumerate_from slice_range firstn skipn
 length map filter fsum orb andb true false Some None Ok Panic fold_left geb gtb id ImpL Imp String string
 range_full""".split())


class Structure(Exception):
    """the file does not have the shape the translator relies on: exit 3"""


# ------------------------------------------------------------------ lexical clean-up and file structure
def scrub(src):
    """remove comments; replace string and char literals by \"\" (their content could unbalance the braces)"""
    out, i, n = [], 0, len(src)
    while i < n:
        c = src[i]
        if src.startswith("//", i):
            j = src.find("\n", i)
            i = n if j < 0 else j
        elif src.startswith("/*", i):
            depth, j = 1, i + 2
            while j < n and depth:
                if src.startswith("/*", j):
                    depth += 1; j += 2
                elif src.startswith("*/", j):
                    depth -= 1; j += 2
                else:
                    j += 1
            if depth:
                raise Structure("unterminated block comment")
            out.append(" "); i = j
        elif c == '"':
            j = i + 1
            while j < n and src[j] != '"':
                j += 2 if src[j] == "\\" else 1
            if j >= n:
                raise Structure("unterminated string literal")
            out.append('""'); i = j + 1
        elif c == "'":
            m = re.match(r"'(\\.[^']*|[^'\\])'", src[i:])
            if m:
                out.append('""'); i += m.end()
            else:
                out.append(c); i += 1          # a lifetime
        else:
            out.append(c); i += 1
    return "".join(out)


def split_items(toks, what):
    """top-level items of a token list: (header tokens, body tokens or None).  An item ends at a `;` outside all
    brackets or with the `}` matching its first `{` outside ( ) [ ]; attributes `#[...]` are dropped"""
    items, i, n = [], 0, len(toks)
    while i < n:
        if toks[i][1] == "#":
            j = i + 1
            if j < n and toks[j][1] == "!":
                j += 1
            if j >= n or toks[j][1] != "[":
                raise Structure("%s: stray `#`" % what)
            depth = 0
            while j < n:
                depth += toks[j][1] == "["
                depth -= toks[j][1] == "]"
                j += 1
                if depth == 0:
                    break
            if depth:
                raise Structure("%s: unterminated attribute" % what)
            i = j
            continue
        head, depth, j, body = [], 0, i, None
        while True:
            if j >= n:
                raise Structure("%s: item `%s ...` does not end" % (what, " ".join(v for _, v in toks[i:i + 4])))
            v = toks[j][1]
            if v in ("(", "["):
                depth += 1
            elif v in (")", "]"):
                depth -= 1
                if depth < 0:
                    raise Structure("%s: unbalanced `%s`" % (what, v))
            elif v == "}" :
                raise Structure("%s: unbalanced `}`" % what)
            elif v == ";" and depth == 0:
                j += 1
                break
            elif v == "{" and depth == 0:
                d, k = 0, j
                while k < n:
                    d += toks[k][1] == "{"
                    d -= toks[k][1] == "}"
                    k += 1
                    if d == 0:
                        break
                if d:
                    raise Structure("%s: unbalanced `{`" % what)
                body = toks[j + 1:k - 1]
                j = k
                if j < n and toks[j][1] == ";" and head and head[0][1] not in ("impl", "fn", "pub", "mod"):
                    j += 1
                break
            head.append(toks[j])
            j += 1
        items.append((head, body))
        i = j
    return items


def vals(toks):
    return [v for _, v in toks]


def file_structure(src):
    """-> (inherent methods: name -> (header, body) in source order, Peak::eq or None, IntoIterator bodies)"""
    src = scrub(src).split("#[cfg(test)]")[0]
    try:
        toks = tokens(src)
    except Refuse as e:
        raise Structure(str(e))
    items = split_items(toks, "peak.rs")
    structs, methods, order, peak_eq, intoiter = {}, {}, [], None, {}
    aliases = {}
    for head, body in items:
        hv = vals(head)
        if hv[:1] == ["pub"]:
            hv = hv[1:]
        if hv[:1] == ["struct"] and body is not None:
            fields = []
            for part in " ".join(vals(body)).split(","):
                part = part.strip()
                if part:
                    fields.append(re.sub(r"^pub ", "", part))
            structs[hv[1]] = fields
        elif hv[:1] == ["type"]:
            aliases[hv[1]] = " ".join(hv[2:])
        elif hv[:1] == ["impl"] and body is not None:
            fns = {}
            for h2, b2 in split_items(body, "impl " + " ".join(hv[1:])):
                h2v = vals(h2)
                if h2v[:1] == ["pub"]:
                    h2 = h2[1:]; h2v = h2v[1:]
                if h2v[:1] == ["fn"] and b2 is not None:
                    fns[h2v[1]] = (h2, b2)
            if hv == ["impl", TIP]:
                for name, hb in fns.items():
                    if name in methods:
                        raise Structure("method %s defined twice" % name)
                    methods[name] = hb
                    order.append(name)
            elif "for" in hv and hv[-1] == "Peak" and "PartialEq" in hv[:hv.index("for")] and "eq" in fns:
                between = [v for v in hv[hv.index("PartialEq") + 1:hv.index("for")]]
                if between in ([], ["<", "Peak", ">"]):
                    peak_eq = fns["eq"]
            elif "for" in hv and "IntoIterator" in hv[:hv.index("for")] and hv[-1] == TIP and "into_iter" in fns:
                target = [v for v in hv[hv.index("for") + 1:-1] if v not in ("'", "a")]
                kind = {(): "val", ("&",): "ref", ("&", "mut"): "mutref"}.get(tuple(target))
                if kind:
                    intoiter[kind] = fns["into_iter"]
    if structs.get("Peak") != ["mz : f64", "intensity : f64"]:
        raise Structure("struct Peak has fields %r" % (structs.get("Peak"),))
    if structs.get(TIP) != ["peaks : PeakList", "origin : f64"]:
        raise Structure("struct %s has fields %r" % (TIP, structs.get(TIP)))
    if aliases.get("PeakList") != "= Vec < Peak >":
        raise Structure("PeakList is not Vec<Peak>: %r" % aliases.get("PeakList"))
    if not methods:
        raise Structure("no `impl %s` block" % TIP)
    return methods, order, peak_eq, intoiter


# ------------------------------------------------------------------ parsing a method to an AST (tuples)
CMP = ("==", "!=", "<", "<=", ">", ">=")
STRUCTS = (TIP, "Self", "Peak")


class Parser:
    def __init__(self, toks):
        self.t, self.i = toks, 0

    def peek(self, k=0):
        return self.t[self.i + k] if self.i + k < len(self.t) else ("eof", "<end>")

    def at(self, *vs):
        return all(self.peek(k)[1] == v and self.peek(k)[0] != "eof" for k, v in enumerate(vs))

    def context(self):
        return " ".join(v for _, v in self.t[max(0, self.i - 4):self.i + 6])

    def take(self, val=None, kind=None):
        k, v = self.peek()
        if (val is not None and (v != val or k == "eof")) or (kind is not None and k != kind):
            raise Refuse("expected %s, found %r near `%s`" % (val or kind, v, self.context()))
        self.i += 1
        return v

    def end(self):
        if self.peek()[0] != "eof":
            raise Refuse("unexpected %r near `%s`" % (self.peek()[1], self.context()))

    # ---- signature
    def type_(self, param):
        if self.at("&"):
            self.take()
            if self.at("mut"):
                raise Refuse("`&mut` parameter type near `%s`" % self.context())
            if not (param and self.at("Peak")):
                raise Refuse("reference type near `%s`" % self.context())
            self.take()
            return ("ref", "Peak")
        ty = self.take(kind="id")
        if ty == "Range" and param:
            self.take("<"); self.take("usize"); self.take(">")
            return "range"
        if self.peek()[1] in ("<", "::"):
            raise Refuse("generic or path type `%s%s` near `%s`" % (ty, self.peek()[1], self.context()))
        table = {"f64": "f64", "usize": "usize", "PeakList": ("vec", "Peak")}
        if not param:
            table.update({"bool": "bool", TIP: "Tip", "Self": "Self"})
        if ty not in table:
            raise Refuse("%s type `%s`" % ("parameter" if param else "result/local", ty))
        return table[ty]

    def signature(self):
        self.take("fn")
        name = self.take(kind="id")
        if self.at("<"):
            raise Refuse("generic method")
        self.take("(")
        if self.at("self"):
            self.take(); selfkind = "val"
        elif self.at("mut", "self"):
            self.i += 2; selfkind = "mutval"
        elif self.at("&", "self"):
            self.i += 2; selfkind = "ref"
        elif self.at("&", "mut", "self"):
            raise Refuse("`&mut self` receiver")
        else:
            selfkind = None
        params = []
        while not self.at(")"):
            if selfkind is not None or params:
                self.take(",")
                if self.at(")"):
                    break
            if self.at("mut"):
                raise Refuse("`mut` parameter near `%s`" % self.context())
            a = self.take(kind="id"); self.take(":")
            params.append((a, self.type_(True)))
        self.take(")")
        if not self.at("->"):
            raise Refuse("no result type")
        self.take("->")
        rty = self.type_(False)
        self.end()
        return name, selfkind, params, rty

    # ---- expressions.  nostruct: condition / iterable position, where Rust does not parse `Name {` as a literal
    def expr(self, nostruct=False):
        a = self.and_(nostruct)
        while self.at("||"):
            self.take()
            a = ("logic", "||", a, self.and_(nostruct))
        if self.peek()[1] in ("..", "..=", "?", "^", "<<", ">>", "%", "as", "=>"):
            raise Refuse("operator %r near `%s`" % (self.peek()[1], self.context()))
        return a

    def and_(self, nostruct):
        a = self.cmp(nostruct)
        while self.at("&&"):
            self.take()
            a = ("logic", "&&", a, self.cmp(nostruct))
        return a

    def cmp(self, nostruct):
        a = self.arith(nostruct)
        if self.peek()[1] in CMP:
            op = self.take()
            b = self.arith(nostruct)
            if self.peek()[1] in CMP:
                raise Refuse("chained comparison near `%s`" % self.context())
            a = ("cmp", op, a, b)
        return a

    def arith(self, nostruct):
        a = self.term(nostruct)
        while self.peek()[1] in ("+", "-"):
            op = self.take()
            a = ("bin", op, a, self.term(nostruct))
        return a

    def term(self, nostruct):
        a = self.unary(nostruct)
        while self.peek()[1] in ("*", "/"):
            op = self.take()
            a = ("bin", op, a, self.unary(nostruct))
        return a

    def unary(self, nostruct):
        if self.at("-"):
            self.take()
            return ("neg", self.unary(nostruct))
        if self.at("*"):
            self.take()
            return ("deref", self.unary(nostruct))
        if self.at("&"):
            self.take()
            mut = False
            if self.at("mut"):
                self.take(); mut = True
            return ("addr", mut, self.postfix(nostruct))
        if self.at("!"):
            raise Refuse("operator `!` near `%s`" % self.context())
        return self.postfix(nostruct)

    def args(self):
        self.take("(")
        out = []
        while not self.at(")"):
            if self.at("|"):
                self.take(); x = self.take(kind="id"); self.take("|")
                if self.at("{"):
                    raise Refuse("closure with a block body near `%s`" % self.context())
                out.append(("closure", x, self.expr()))
            elif self.at("..") and self.peek(1)[1] == ")":
                self.take()
                out.append(("rangefull",))
            else:
                out.append(self.expr())
            if self.at(","):
                self.take()
            elif not self.at(")"):
                raise Refuse("argument list near `%s`" % self.context())
        self.take(")")
        return out

    def postfix(self, nostruct):
        a = self.primary(nostruct)
        while True:
            if self.at("."):
                self.take()
                if self.peek()[0] == "int":
                    raise Refuse("tuple field near `%s`" % self.context())
                f = self.take(kind="id")
                if self.at("::"):
                    raise Refuse("turbofish near `%s`" % self.context())
                if self.at("("):
                    a = ("mcall", a, f, self.args())
                else:
                    a = ("field", a, f)
            elif self.at("["):
                self.take()
                ix = self.expr()
                self.take("]")
                a = ("index", a, ix)
            elif self.at("?"):
                raise Refuse("operator `?` near `%s`" % self.context())
            else:
                return a

    def primary(self, nostruct):
        k, v = self.peek()
        if k == "float":
            self.take()
            return ("float", v)
        if k == "int":
            self.take()
            if self.peek()[0] == "id" and re.fullmatch(r"[iuf]\d+|usize|isize", self.peek()[1]):
                raise Refuse("suffixed literal near `%s`" % self.context())
            return ("int", v.replace("_", ""))
        if k == "op" and v == "(":
            self.take()
            a = self.expr()
            if self.at(","):
                raise Refuse("tuple expression near `%s`" % self.context())
            self.take(")")
            return ("paren", a)
        if k == "id" and v in ("true", "false"):
            self.take()
            return ("bool", v)
        if k == "id":
            if v in ("match", "loop", "while", "for", "unsafe", "move", "return", "break", "continue", "let", "mut", "as",
                     "fn", "if", "else", "in", "impl", "struct"):
                raise Refuse("`%s` in expression position near `%s`" % (v, self.context()))
            self.take()
            if self.at("!"):
                raise Refuse("macro `%s!`" % v)
            if self.at("::"):
                path = [v]
                while self.at("::"):
                    self.take()
                    if self.at("<"):
                        raise Refuse("turbofish near `%s`" % self.context())
                    path.append(self.take(kind="id"))
                if not self.at("("):
                    raise Refuse("path `%s` that is not called" % "::".join(path))
                return ("pcall", tuple(path), self.args())
            if self.at("{") and v in STRUCTS and not nostruct:
                self.take()
                fields = []
                while not self.at("}"):
                    if self.at(".."):
                        raise Refuse("struct update syntax `..` in a %s literal" % v)
                    f = self.take(kind="id")
                    if self.at(":"):
                        self.take()
                        e = self.expr()
                    else:
                        e = ("var", f)
                    fields.append((f, e))
                    if self.at(","):
                        self.take()
                    elif not self.at("}"):
                        raise Refuse("struct literal near `%s`" % self.context())
                self.take("}")
                return ("struct", v, fields)
            if self.at("("):
                raise Refuse("call of free function `%s`" % v)
            return ("var", v)
        raise Refuse("unexpected %r near `%s`" % (v, self.context()))

    # ---- statements
    def lval_ahead(self):
        """name ['.' field] followed by an assignment operator or by `.push(` / `.truncate(`: its token length"""
        if self.peek()[0] != "id":
            return None
        n = 1
        if self.peek(1)[1] == "." and self.peek(2)[0] == "id" and self.peek(3)[1] != "(":
            n = 3
        nxt = self.peek(n)[1]
        if nxt in ("=", "+=", "-=", "*=", "/="):
            return n, "asg"
        if nxt in ("%=", "<<=", ">>=", "&=", "|=", "^="):
            raise Refuse("assignment operator `%s`" % nxt)
        if nxt == "." and self.peek(n + 1)[1] in ("push", "truncate") and self.peek(n + 2)[1] == "(":
            return n, "mstmt"
        return None

    def lval(self, n):
        x = self.take(kind="id")
        if n == 3:
            self.take(".")
            return ("field", ("var", x), self.take(kind="id"))
        return ("var", x)

    def block(self):
        self.take("{")
        stmts, tail = [], None
        while not self.at("}"):
            if tail is not None:
                raise Refuse("an expression that is not last in its block, near `%s`" % self.context())
            k, v = self.peek()
            if k == "eof":
                raise Refuse("unterminated block")
            la = self.lval_ahead() if k == "id" and v not in ("let", "return", "break", "for", "if") else None
            if (k, v) == ("id", "let"):
                self.take()
                mut = False
                if self.at("mut"):
                    self.take(); mut = True
                if self.peek()[0] != "id":
                    raise Refuse("pattern in `let` near `%s`" % self.context())
                x = self.take(kind="id")
                ty = None
                if self.at(":"):
                    self.take(); ty = self.type_(False)
                if not self.at("="):
                    raise Refuse("`let %s` without initialiser" % x)
                self.take("=")
                stmts.append(("let", mut, x, ty, self.expr()))
                self.take(";")
            elif (k, v) == ("id", "return"):
                self.take()
                if self.at(";"):
                    raise Refuse("`return;` without a value")
                stmts.append(("ret", self.expr()))
                self.take(";")
            elif (k, v) == ("id", "break"):
                self.take()
                if not self.at(";"):
                    raise Refuse("`break` with a label or value")
                self.take(";")
                stmts.append(("brk",))
            elif (k, v) == ("id", "for"):
                self.take()
                if self.at("("):
                    self.take(); a = self.take(kind="id"); self.take(","); b = self.take(kind="id"); self.take(")")
                    pat = ("ptuple", a, b)
                elif self.at("mut"):
                    self.take(); pat = ("pvar", True, self.take(kind="id"))
                elif self.peek()[0] == "id":
                    pat = ("pvar", False, self.take(kind="id"))
                else:
                    raise Refuse("loop pattern near `%s`" % self.context())
                self.take("in")
                it = self.unary(True)
                if not self.at("{"):
                    raise Refuse("iterable expression near `%s`" % self.context())
                stmts.append(("for", pat, it, self.block()))
            elif (k, v) == ("id", "if"):
                self.take()
                if self.at("let"):
                    raise Refuse("`if let`")
                c = self.expr(True)
                b1 = self.block()
                b2 = None
                if self.at("else"):
                    self.take()
                    if self.at("if"):
                        raise Refuse("`else if` near `%s`" % self.context())
                    b2 = self.block()
                if b1[1] is not None or (b2 is not None and b2[1] is not None):
                    raise Refuse("an `if` whose branch ends in an expression (its value would be used), near `%s`" % self.context())
                stmts.append(("if", c, b1, b2))
                if self.at(";"):
                    self.take()
            elif k == "id" and v in ("while", "loop", "match", "continue", "unsafe"):
                raise Refuse("`%s`" % v)
            elif la is not None and la[1] == "asg":
                lv = self.lval(la[0]); op = self.take()
                stmts.append(("asg", lv, op, self.expr()))
                self.take(";")
            elif la is not None:
                lv = self.lval(la[0]); self.take("."); m = self.take(kind="id"); self.take("(")
                e = self.expr()
                self.take(")"); self.take(";")
                stmts.append(("mstmt", lv, m, e))
            else:
                e = self.expr()
                if self.at(";"):
                    raise Refuse("expression statement `%s ...;`" % describe(e))
                if self.peek()[1] in ("=", "+=", "-=", "*=", "/="):
                    raise Refuse("assignment to `%s`" % describe(e))
                tail = e
        self.take("}")
        return (stmts, tail)


def describe(e):
    k = e[0]
    if k == "var":
        return e[1]
    if k == "field":
        return "%s.%s" % (describe(e[1]), e[2])
    if k == "mcall":
        return "%s.%s(..)" % (describe(e[1]), e[2])
    if k == "pcall":
        return "::".join(e[1]) + "(..)"
    if k == "index":
        return "%s[..]" % describe(e[1])
    return "<%s>" % k


# ------------------------------------------------------------------ typed translation to Gallina text
NIL = "(@nil (@Peak.peak F))"
COPY = ("f64", "Peak")


def deref(ty):
    return ty[1] if isinstance(ty, tuple) and ty[0] in ("ref", "mutref") else ty


def show(ty):
    if isinstance(ty, tuple):
        return {"vec": "Vec<%s>", "slice": "&[%s]", "ref": "&%s", "mutref": "&mut %s", "iter": "Iterator<%s>"}[ty[0]] % show(ty[1])
    return {"Tip": TIP}.get(ty, ty)


def coq_ty(ty):
    ty = deref(ty)
    if ty in (("vec", "Peak"), ("slice", "Peak")):
        return "list (@Peak.peak F)"
    return {"f64": "F", "usize": "nat", "bool": "bool", "Peak": "@Peak.peak F", "Tip": "@Peak.tip F"}[ty]


def root(e):
    if e[0] == "var":
        return e[1]
    if e[0] == "field" and e[1][0] == "var":
        return e[1][1]
    return None


def iter_root_mut(it):
    """the local a loop over `it` modifies by iterating (iter_mut, &mut, drain), if any"""
    if it[0] == "mcall" and it[2] == "enumerate":
        return iter_root_mut(it[1])
    if it[0] == "addr" and it[1]:
        return root(it[2])
    if it[0] == "mcall" and it[2] in ("iter_mut", "drain"):
        return root(it[1])
    return None


def contains(block, what):
    """does the block contain a `ret` / `brk` statement (a `brk` of a nested loop belongs to that loop)"""
    for s in block[0]:
        if s[0] == what:
            return True
        if s[0] == "if" and (contains(s[2], what) or (s[3] is not None and contains(s[3], what))):
            return True
        if s[0] == "for" and what == "ret" and contains(s[3], what):
            return True
    return False


def assigned(block, acc):
    for s in block[0]:
        if s[0] in ("asg", "mstmt"):
            x = root(s[1])
            if x not in acc:
                acc.append(x)
        elif s[0] == "if":
            assigned(s[2], acc)
            if s[3] is not None:
                assigned(s[3], acc)
        elif s[0] == "for":
            x = iter_root_mut(s[2])
            if x is not None and x not in acc:
                acc.append(x)
            assigned(s[3], acc)
    return acc


class Method:
    """translation of one method body; env: name -> {ty, mut, idx, bounded}"""

    def __init__(self, name, selfkind, selfty, params, rty, body, world):
        self.name, self.selfkind, self.selfty, self.params, self.body, self.world = name, selfkind, selfty, params, body, world
        self.rty = selfty if rty == "Self" else rty
        self.counter = 0
        self.calls = []
        self.may_panic = any(s[0] == "let" and self.is_slice(s[4]) for s in body[0])

    def refuse(self, msg):
        raise Refuse(msg)

    @staticmethod
    def is_slice(e):
        return e[0] == "addr" and e[2][0] == "index"

    def declare(self, env, x, ty, mut, top, bounded=False):
        if x in env and not top:
            self.refuse("`%s` shadows a local in a nested block" % x)
        if x == "self" or x in RESERVED or not re.fullmatch(r"[a-z_][a-z0-9_]*", x) or x == "_" or x.endswith("_gen"):
            self.refuse("local name `%s` is reserved or not a plain lower-case identifier" % x)
        env = dict(env)
        self.counter += 1
        env[x] = {"ty": ty, "mut": mut, "idx": self.counter, "bounded": bounded}
        return env

    # ---- usize values that are bounded by a Vec length (so that `+ literal` cannot overflow)
    def bounded(self, e, env):
        k = e[0]
        if k == "paren":
            return self.bounded(e[1], env)
        if k == "int":
            return int(e[1]) <= 100000
        if k == "var":
            return e[1] in env and env[e[1]]["bounded"]
        if k == "mcall" and e[2] == "len" and not e[3]:
            return True
        if k == "mcall" and e[2] == "saturating_sub":
            return self.bounded(e[1], env)
        return False

    # ---- expressions: (text, type); `want` types an integer literal
    def ex(self, e, env, want=None):
        k = e[0]
        if k == "paren":
            return self.ex(e[1], env, want)
        if k == "float":
            t = e[1].replace("_", "")
            if t.endswith("f64"):
                t = t[:-3]
            if re.fullmatch(r"0+\.0+", t):
                return "(zero N)", "f64"
            if re.fullmatch(r"0*1\.0+", t):
                return "(one N)", "f64"
            return float_lit(t), "f64"
        if k == "int":
            if want == "usize":
                if int(e[1]) > 100000:
                    self.refuse("usize literal %s is too large for a unary nat" % e[1])
                return "%s%%nat" % e[1], "usize"
            self.refuse("integer literal %s where a usize is not expected" % e[1])
        if k == "bool":
            return e[1], "bool"
        if k == "var":
            if e[1] in env:
                return e[1], env[e[1]]["ty"]
            self.refuse("unknown name `%s`" % e[1])
        if k == "neg":
            a, ta = self.ex(e[1], env)
            if deref(ta) != "f64":
                self.refuse("unary minus on %s" % show(ta))
            return "(opp N %s)" % a, "f64"
        if k == "deref":
            a, ta = self.ex(e[1], env)
            if not (isinstance(ta, tuple) and ta[0] in ("ref", "mutref") and ta[1] in COPY):
                self.refuse("`*` on %s" % show(ta))
            return a, ta[1]
        if k == "addr":
            self.refuse("a reference expression `&%s` in this position" % describe(e[2]))
        if k == "bin":
            (a, ta), (b, tb) = self.pair(e[2], e[3], env)
            if ta == "f64" and tb == "f64":
                return "(%s N %s %s)" % ({"+": "add", "-": "sub", "*": "mul", "/": "div"}[e[1]], a, b), "f64"
            if ta == "usize" and tb == "usize" and e[1] == "+" and e[3][0] == "int" and self.bounded(e[2], env):
                return "(Nat.add %s %s)" % (a, b), "usize"
            if ta == "usize" or tb == "usize":
                self.refuse("usize arithmetic `%s %s %s` (only <value bounded by a Vec length> + <literal>)" % (describe(e[2]), e[1], describe(e[3])))
            self.refuse("`%s` on %s and %s" % (e[1], show(ta), show(tb)))
        if k == "cmp":
            if e[2][0] == "int" and e[3][0] == "int":
                self.refuse("comparison of two literals")
            (a, ta), (b, tb) = self.pair(e[2], e[3], env)
            if ta != tb or ta not in ("f64", "usize"):
                self.refuse("comparison `%s` of %s and %s" % (e[1], show(ta), show(tb)))
            pre = (lambda f, x, y: "(%s N %s %s)" % (f, x, y)) if ta == "f64" else (lambda f, x, y: "(Nat.%s %s %s)" % (f, x, y))
            return {"==": pre("eqb", a, b), "!=": "(negb %s)" % pre("eqb", a, b), "<": pre("ltb", a, b), "<=": pre("leb", a, b),
                    ">": pre("ltb", b, a), ">=": pre("leb", b, a)}[e[1]], "bool"
        if k == "logic":
            a, ta = self.ex(e[2], env)
            b, tb = self.ex(e[3], env)
            if ta != "bool" or tb != "bool":
                self.refuse("`%s` on %s and %s" % (e[1], show(ta), show(tb)))
            return "(%s %s %s)" % ("orb" if e[1] == "||" else "andb", a, b), "bool"
        if k == "field":
            a, ta = self.ex(e[1], env)
            d = deref(ta)
            if d == "Tip" and e[2] == "peaks":
                return "(Peak.peaks %s)" % a, ("vec", "Peak")
            if d == "Tip" and e[2] == "origin":
                return "(Peak.origin %s)" % a, "f64"
            if d == "Peak" and e[2] == "mz":
                return "(Peak.mz %s)" % a, "f64"
            if d == "Peak" and e[2] == "intensity":
                return "(Peak.inten %s)" % a, "f64"
            self.refuse("field `.%s` of %s" % (e[2], show(ta)))
        if k == "index":
            self.refuse("indexing `%s` (only `let s = &v[range];`)" % describe(e))
        if k == "struct":
            which = self.selfty if e[1] == "Self" else {"Peak": "Peak", TIP: "Tip"}[e[1]]
            want_f = {"Peak": [("mz", "f64"), ("intensity", "f64")], "Tip": [("peaks", ("vec", "Peak")), ("origin", "f64")]}[which]
            names = [f for f, _ in e[2]]
            if sorted(names) != sorted(f for f, _ in want_f):
                self.refuse("%s literal with fields %s" % (e[1], names))
            d = {}
            for f, fe in e[2]:
                t, ty = self.ex(fe, env)
                if deref(ty) != dict(want_f)[f] or (ty != deref(ty) and deref(ty) not in COPY):
                    self.refuse("%s field %s of type %s" % (e[1], f, show(ty)))
                d[f] = t
            return "(Peak.%s %s %s)" % ("mkPeak" if which == "Peak" else "mkTip", d[want_f[0][0]], d[want_f[1][0]]), which
        if k == "pcall":
            path, args = e[1], e[2]
            if len(path) == 2 and path[0] in ("PeakList", "Vec") and path[1] in ("new", "with_capacity"):
                if path[1] == "new":
                    if args:
                        self.refuse("%s::new with arguments" % path[0])
                else:
                    if len(args) != 1:
                        self.refuse("with_capacity with %d arguments" % len(args))
                    _, tc = self.ex(args[0], env, "usize")
                    if tc != "usize" or not self.bounded(args[0], env):
                        self.refuse("with_capacity(%s): the capacity is not a usize bounded by a Vec length" % describe(args[0]))
                return NIL, ("vec", "Peak")
            if len(path) == 2 and (path[0] == TIP or (path[0] == "Self" and self.selfty == "Tip")):
                return self.call(path[1], None, args, env)
            self.refuse("call of `%s`" % "::".join(path))
        if k == "mcall":
            return self.mcall(e, env)
        if k == "closure":
            self.refuse("a closure that is not the argument of `map`")
        if k == "rangefull":
            self.refuse("`..` that is not the argument of `drain`")
        self.refuse("expression form %r" % k)

    def pair(self, l, r, env):
        """two operands of the same type; a literal takes the type of the other side"""
        if l[0] == "int":
            b = self.ex(r, env)
            return self.ex(l, env, deref(b[1])), (b[0], deref(b[1]))
        a = self.ex(l, env)
        b = self.ex(r, env, deref(a[1]))
        return (a[0], deref(a[1])), (b[0], deref(b[1]))

    def mcall(self, e, env):
        _, recv, m, args = e
        a, ta = self.ex(recv, env)
        d = deref(ta)
        if d == "f64" and m in ("abs", "is_finite", "is_infinite") and not args:
            return "(%s N %s)" % (m, a), ("f64" if m == "abs" else "bool")
        if d == "usize" and m == "saturating_sub" and len(args) == 1:
            b, tb = self.ex(args[0], env, "usize")
            if tb != "usize":
                self.refuse("saturating_sub(%s)" % show(tb))
            return "(Nat.sub %s %s)" % (a, b), "usize"
        if isinstance(d, tuple) and d[0] in ("vec", "slice"):
            if m == "len" and not args:
                return "(length %s)" % a, "usize"
            if m == "to_vec" and not args:
                return a, ("vec", d[1])
            if m == "iter" and not args:
                return a, ("iter", ("ref", d[1]))
            if m in ("iter_mut", "drain", "into_iter"):
                self.refuse("`%s.%s(..)` that is not what a `for` loop iterates" % (describe(recv), m))
        if isinstance(d, tuple) and d[0] == "iter":
            if m == "map" and len(args) == 1 and args[0][0] == "closure":
                x, body = args[0][1], args[0][2]
                cenv = self.declare(env, x, d[1], False, False)
                b, tb = self.ex(body, cenv)
                if deref(tb) not in COPY:
                    self.refuse("`map` to %s" % show(tb))
                return "(map (fun %s => %s) %s)" % (x, strip(b), a), ("iter", deref(tb))
            if m == "sum" and not args:
                if d[1] != "f64" or self.rty != "f64":
                    self.refuse("`sum` of %s" % show(d))
                return "(fsum N %s)" % a, "f64"
            if m == "enumerate":
                self.refuse("`enumerate` that is not what a `for` loop iterates")
        if d == "Tip":
            return self.call(m, (a, ta), args, env)
        self.refuse("method `.%s(..)` on %s" % (m, show(ta)))

    def call(self, m, recv, args, env):
        if m == self.name and self.selfty == "Tip":
            self.refuse("recursive call")
        sig = self.world.sig(m, self.name)          # translates the callee if need be; Refuse if it is skipped
        if (sig["selfkind"] is None) != (recv is None):
            self.refuse("`%s` called %s a receiver" % (m, "without" if recv is None else "with"))
        if len(sig["params"]) != len(args):
            self.refuse("call of %s with %d arguments" % (m, len(args)))
        if sig["may_panic"]:
            self.refuse("call of `%s`, which can panic" % m)
        out = [] if recv is None else [recv[0]]
        for arg, (_, pt) in zip(args, sig["params"]):
            if pt == "range":
                self.refuse("a Range argument in the call of %s" % m)
            t, ty = self.ex(arg, env, "usize" if pt == "usize" else None)
            if deref(ty) != pt or (ty != pt and pt not in COPY):
                self.refuse("argument of %s has type %s, the parameter has %s" % (m, show(ty), show(pt)))
            out.append(t)
        if m not in self.calls:
            self.calls.append(m)
        return "(%s_gen N %s)" % (m, " ".join(out)), sig["rty"]

    def cond(self, e, env):
        c, tc = self.ex(e, env)
        if tc != "bool":
            self.refuse("`if` on a %s" % show(tc))
        return strip(c)

    @staticmethod
    def tup(names):
        return names[0] if len(names) == 1 else "(" + ", ".join(names) + ")"

    @staticmethod
    def pat(names):
        return names[0] if len(names) == 1 else "'(" + ", ".join(names) + ")"

    def mods(self, blocks, env, what):
        names = []
        for b in blocks:
            if b is not None:
                assigned(b, names)
        if None in names:
            self.refuse("%s assigns through something that is not a local or a field of one" % what)
        names = [x for x in names if x in env]
        return sorted(names, key=lambda x: env[x]["idx"])

    # ---- assignable places: a local, or a field of a local record
    def set_lval(self, lv, env, val, what):
        x = root(lv)
        if x is None or x not in env:
            self.refuse("%s of `%s`, which is not a local or a field of one" % (what, describe(lv)))
        ty, mut = env[x]["ty"], env[x]["mut"]
        if not (mut or (isinstance(ty, tuple) and ty[0] == "mutref")):
            self.refuse("%s of `%s`, which is not mutable" % (what, describe(lv)))
        if lv[0] == "var":
            if isinstance(ty, tuple) and ty[0] == "mutref":
                self.refuse("%s of the `&mut` binding `%s` itself" % (what, x))
            return "let %s := %s in\n" % (x, val)
        d, f = deref(ty), lv[2]
        if d == "Tip" and f in ("peaks", "origin"):
            new = ("Peak.mkTip %s (Peak.origin %s)" % (atom(val), x)) if f == "peaks" else ("Peak.mkTip (Peak.peaks %s) %s" % (x, atom(val)))
        elif d == "Peak" and f in ("mz", "intensity"):
            new = ("Peak.mkPeak %s (Peak.inten %s)" % (atom(val), x)) if f == "mz" else ("Peak.mkPeak (Peak.mz %s) %s" % (x, atom(val)))
        else:
            self.refuse("%s of field `.%s` of %s" % (what, f, show(ty)))
        return "let %s := %s in\n" % (x, new)

    # ---- what a `for` loop iterates: (method, the Vec expression)
    def iter_source(self, it, env):
        if it[0] == "mcall" and it[2] in ("iter", "iter_mut", "into_iter") and not it[3]:
            _, tr = self.ex(it[1], env)
            if isinstance(deref(tr), tuple) and deref(tr)[0] in ("vec", "slice"):
                if it[2] == "into_iter" and tr != ("vec", "Peak"):
                    self.refuse("`into_iter()` on %s" % show(tr))
                return it[2], it[1]
            self.refuse("`.%s()` on %s" % (it[2], show(tr)))
        if it[0] == "mcall" and it[2] == "drain":
            _, tr = self.ex(it[1], env)
            if it[3] != [("rangefull",)] or tr != ("vec", "Peak"):
                self.refuse("`drain` other than `<Vec>.drain(..)`")
            return "drain", it[1]
        if it[0] == "addr":
            _, tr = self.ex(it[2], env)
            if tr == ("vec", "Peak"):
                return ("iter_mut" if it[1] else "iter"), it[2]
            if tr == "Tip":
                return self.world.into_iter("mutref" if it[1] else "ref"), ("field", it[2], "peaks")
            self.refuse("iteration over `&%s%s` of type %s" % ("mut " if it[1] else "", describe(it[2]), show(tr)))
        _, tr = self.ex(it, env)
        if tr == ("vec", "Peak"):
            return "into_iter", it
        if deref(tr) == "Tip":
            kind = "val" if tr == "Tip" else tr[0]
            return self.world.into_iter(kind), ("field", it, "peaks")
        self.refuse("iteration over `%s` of type %s" % (describe(it), show(tr)))

    # ---- statements.  k(env): the text after normal completion; ret(text) / brk(): `return text` / `break`
    def stmts(self, ss, env, k, ret, brk, in_loop, top):
        if not ss:
            return k(env)
        s, rest = ss[0], ss[1:]
        kind = s[0]
        again = lambda env2: self.stmts(rest, env2, k, ret, brk, in_loop, top)
        if kind == "let":
            _, mut, x, ty, rhs = s
            if ty == "Self":
                ty = self.selfty
            if self.is_slice(rhs):
                v, r = rhs[2][1], rhs[2][2]
                if rhs[1] or not top or in_loop:
                    self.refuse("a slice `&%s` that is not a top-level `let s = &v[range];`" % describe(rhs[2]))
                vt, tv = self.ex(v, env)
                if r[0] != "var" or r[1] not in env or env[r[1]]["ty"] != "range" or deref(tv) != ("vec", "Peak"):
                    self.refuse("slice `%s` (only <Vec<Peak>>[<Range<usize> parameter>])" % describe(rhs[2]))
                if ty is not None:
                    self.refuse("type annotation on a slice")
                env2 = self.declare(env, x, ("slice", "Peak"), False, top)
                return "match slice_range %s %s_start %s_end with\n| None => Peak.Panic\n| Some %s =>\n%s\nend" % (
                    vt, r[1], r[1], x, ind(again(env2)))
            t, te = self.ex(rhs, env, "usize" if ty == "usize" else None)
            if te != deref(te):
                if deref(te) not in COPY:
                    self.refuse("let %s = <%s> (a reference is kept)" % (x, show(te)))
                self.refuse("let %s = <%s> without `*`" % (x, show(te)))
            if te not in ("f64", "usize", "bool", "Peak", "Tip", ("vec", "Peak")):
                self.refuse("let %s of type %s" % (x, show(te)))
            if ty is not None and ty != te:
                self.refuse("let %s: declared %s, initialiser has %s" % (x, show(ty), show(te)))
            env2 = self.declare(env, x, te, mut, top, te == "usize" and self.bounded(rhs, env))
            return "let %s := %s in\n%s" % (x, strip(t), again(env2))
        if kind == "asg":
            _, lv, op, e = s
            cur, tc = self.ex(lv, env)
            t, te = self.ex(e, env, "usize" if tc == "usize" else None)
            if deref(te) != tc or (te != tc and tc not in COPY) or isinstance(tc, tuple) and tc[0] in ("ref", "mutref"):
                self.refuse("`%s %s <%s>` where the place has type %s" % (describe(lv), op, show(te), show(tc)))
            if op != "=" and tc != "f64":
                self.refuse("`%s` on a %s" % (op, show(tc)))
            if tc == "usize" and lv[0] == "var" and env[lv[1]]["bounded"] and not self.bounded(e, env):
                self.refuse("`%s = %s`: the value is not bounded by a Vec length" % (lv[1], describe(e)))
            if tc == "usize" and lv[0] != "var":
                self.refuse("assignment of a usize field")
            val = strip(t) if op == "=" else "%s N %s %s" % ({"+=": "add", "-=": "sub", "*=": "mul", "/=": "div"}[op], cur, t)
            return self.set_lval(lv, env, val, "assignment") + again(env)
        if kind == "mstmt":
            _, lv, m, e = s
            cur, tc = self.ex(lv, env)
            if tc != ("vec", "Peak"):
                self.refuse("`.%s(..)` on `%s` of type %s" % (m, describe(lv), show(tc)))
            if m == "push":
                t, te = self.ex(e, env)
                if te != "Peak":
                    self.refuse("push of a %s on a Vec<Peak>" % show(te))
                val = "%s ++ [%s]" % (cur, strip(t))
            else:
                t, te = self.ex(e, env, "usize")
                if te != "usize":
                    self.refuse("truncate(%s)" % show(te))
                val = "firstn %s %s" % (t, cur)
            return self.set_lval(lv, env, val, "`.%s(..)`" % m) + again(env)
        if kind == "ret":
            if ret is None:
                self.refuse("`return` inside a loop or an `if` that does not itself end in an exit")
            if rest:
                self.refuse("statements after `return`")
            t, te = self.ex(s[1], env, "usize" if self.rty == "usize" else None)
            self.check_ret(te)
            return ret(strip(t))
        if kind == "brk":
            if brk is None:
                self.refuse("`break` outside a `for` loop of the subset, or inside an `if` that does not itself end in an exit")
            if rest:
                self.refuse("statements after `break`")
            return brk()
        if kind == "if":
            _, c, b1, b2 = s
            ct = self.cond(c, env)
            exits = lambda b: b is not None and (contains(b, "ret") or contains(b, "brk"))
            if exits(b1) or exits(b2):
                ends = lambda b: b is not None and bool(b[0]) and b[0][-1][0] in ("ret", "brk")
                if not (ends(b1) or ends(b2)):
                    self.refuse("an `if` containing `return`/`break` none of whose branches ends in it")
                if ends(b1) and ends(b2) and rest:
                    self.refuse("statements after an `if` both of whose branches exit")
                after = lambda _env: again(env)
                t1 = self.stmts(b1[0], env, after, ret, brk, in_loop, False)
                t2 = self.stmts(b2[0], env, after, ret, brk, in_loop, False) if b2 is not None else again(env)
                return "if %s then\n%s\nelse\n%s" % (ct, ind(t1), t2)
            xs = self.mods([b1, b2], env, "an `if`")
            if not xs:
                self.refuse("an `if` statement that assigns no outer local")
            fin = lambda _env: self.tup(xs)
            t1 = self.stmts(b1[0], env, fin, None, None, in_loop, False)
            t2 = self.stmts(b2[0], env, fin, None, None, in_loop, False) if b2 is not None else self.tup(xs)
            return "let %s :=\n  (if %s then\n%s\n   else\n%s) in\n%s" % (self.pat(xs), ct, ind(t1, 5), ind(t2, 5), again(env))
        if kind == "for":
            return self.loop(s, env, again, in_loop)
        self.refuse("statement form %r" % kind)

    def loop(self, s, env, again, in_loop):
        _, pat, it, body = s
        if in_loop:
            self.refuse("nested loop")
        if body[1] is not None:
            self.refuse("loop body ending in an expression")
        if contains(body, "ret"):
            self.refuse("`return` inside a loop")
        enum = it[0] == "mcall" and it[2] == "enumerate" and not it[3]
        meth, vec = self.iter_source(it[1] if enum else it, env)
        ltext, _ = self.ex(vec, env)
        elt = {"iter": ("ref", "Peak"), "iter_mut": ("mutref", "Peak"), "into_iter": "Peak", "drain": "Peak"}[meth]
        xs = self.mods([body], env, "a loop")
        if meth == "iter_mut":
            if enum or pat[0] != "pvar" or pat[1]:
                self.refuse("an iter_mut loop with `enumerate` or a `mut`/tuple pattern")
            if contains(body, "brk"):
                self.refuse("`break` inside an iter_mut loop")
            if xs:
                self.refuse("an iter_mut loop that also assigns the outer local `%s`" % xs[0])
            x = pat[2]
            benv = self.declare(env, x, elt, False, False)
            bt = self.stmts(body[0], benv, lambda _e: x, None, None, True, False)
            if root(vec) is not None and root(vec) in self.mentions(body):
                self.refuse("an iter_mut loop whose body uses `%s`, which it borrows" % root(vec))
            val = "for_mut (fun %s =>\n%s\n  ) %s" % (x, ind(bt, 4), ltext)
            return self.set_lval(vec, env, val, "iter_mut") + again(env)
        if not xs:
            self.refuse("a loop that assigns no outer local")
        if enum:
            if pat[0] != "ptuple":
                self.refuse("`enumerate` without an `(index, element)` pattern")
            benv = self.declare(env, pat[1], "usize", False, False, True)
            benv = self.declare(benv, pat[2], elt, False, False)
            binder, ltext = "'(%s, %s)" % (pat[1], pat[2]), "(enumerate %s)" % ltext
        else:
            if pat[0] != "pvar":
                self.refuse("a tuple pattern without `enumerate`")
            if pat[1] and elt != "Peak":
                self.refuse("`for mut %s` over references" % pat[2])
            benv = self.declare(env, pat[2], elt, pat[1], False)
            binder = pat[2]
        if meth == "drain" and root(vec) in xs:
            self.refuse("a loop over `%s.drain(..)` whose body assigns `%s`" % (describe(vec), root(vec)))
        post = self.set_lval(vec, env, NIL, "drain") if meth == "drain" else ""
        if not contains(body, "brk"):
            bt = self.stmts(body[0], benv, lambda _e: self.tup(xs), None, None, True, False)
            comb = "for_each"
        else:
            bt = self.stmts(body[0], benv, lambda _e: "inl %s" % self.tup(xs), None, lambda: "inr %s" % self.tup(xs), True, False)
            comb = "for_each_brk"
        return "let %s :=\n  %s %s (fun %s %s =>\n%s\n  ) %s in\n%s%s" % (
            self.pat(xs), comb, ltext, binder, self.pat(xs), ind(bt, 4), self.tup(xs), post, again(env))

    def mentions(self, block):
        out = set()

        def walk(o):
            if isinstance(o, tuple):
                if len(o) == 2 and o[0] == "var":
                    out.add(o[1])
                for c in o:
                    walk(c)
            elif isinstance(o, list):
                for c in o:
                    walk(c)
        walk(block)
        return out

    def check_ret(self, te):
        if te != self.rty:
            self.refuse("returns a %s, declared %s" % (show(te), show(self.rty)))

    def translate(self):
        env = {}
        if self.selfkind is not None:
            self.counter += 1
            sty = ("ref", self.selfty) if self.selfkind == "ref" else self.selfty
            env["self"] = {"ty": sty, "mut": self.selfkind == "mutval", "idx": self.counter, "bounded": False}
        binders = ["(self : %s)" % coq_ty(self.selfty)] if self.selfkind is not None else []
        for a, ty in self.params:
            if ty == "range":
                env = self.declare(env, a, "range", False, True)
                for suffix in ("_start", "_end"):
                    env = self.declare(env, a + suffix, "usize", False, True)
                    binders.append("(%s%s : nat)" % (a, suffix))
            else:
                env = self.declare(env, a, ty, False, True)
                binders.append("(%s : %s)" % (a, coq_ty(ty)))
        body = self.body
        wrap = (lambda t: "Peak.Ok %s" % atom(t)) if self.may_panic else (lambda t: t)
        if body[1] is None:
            if not body[0] or body[0][-1][0] != "ret":
                self.refuse("the body has no result expression")

            def k(_env):
                self.refuse("the body can end without a value")
        else:
            def k(env2):
                t, te = self.ex(body[1], env2, "usize" if self.rty == "usize" else None)
                self.check_ret(te)
                return wrap(strip(t))
        text = self.stmts(body[0], env, k, wrap, None, False, True)
        rty = coq_ty(self.rty)
        if self.may_panic:
            rty = "Peak.res (%s)" % rty
        return "Definition %s_gen {F : Type} (N : Num F) %s : %s :=\n%s." % (self.name, " ".join(binders), rty, ind(text))


# ------------------------------------------------------------------ the methods of the file, translated on demand
class World:
    def __init__(self, methods, order, peak_eq, intoiter):
        self.src = dict(methods)
        self.order = list(order)
        if peak_eq is not None:
            self.src["peak_eq"] = peak_eq
            self.order.append("peak_eq")
        self.intoiter_src = intoiter
        self.done, self.skipped, self.emitted, self.active = {}, {}, [], []

    def into_iter(self, kind):
        """the Vec method `impl IntoIterator for <kind> TheoreticalIsotopicPattern` forwards to on self.peaks"""
        what = {"val": "", "ref": "&", "mutref": "&mut "}[kind] + TIP
        if kind not in self.intoiter_src:
            raise Refuse("iteration over a %s: no `impl IntoIterator for %s`" % (what, what))
        body = Parser([("op", "{")] + self.intoiter_src[kind][1] + [("op", "}")]).block()
        want = {"val": "into_iter", "ref": "iter", "mutref": "iter_mut"}[kind]
        if body != ([], ("mcall", ("field", ("var", "self"), "peaks"), want, [])):
            raise Refuse("iteration over a %s: its into_iter() is not `self.peaks.%s()`" % (what, want))
        return want

    def attempt(self, name):
        if name in self.done or name in self.skipped:
            return
        if name not in self.src:
            self.skipped[name] = "no such method in `impl %s`" % TIP if name != "peak_eq" else "no `impl PartialEq for Peak` with `fn eq`"
            return
        if name in self.active:
            raise Refuse("recursive call cycle through `%s`" % name)
        self.active.append(name)
        try:
            head, body = self.src[name]
            _, selfkind, params, rty = Parser(head).signature()
            selfty = "Peak" if name == "peak_eq" else "Tip"
            if selfkind is None and rty == "Self":
                rty = selfty
            ast = Parser([("op", "{")] + body + [("op", "}")]).block()
            m = Method(name, selfkind, selfty, params, rty, ast, self)
            text = m.translate()
            self.done[name] = {"selfkind": selfkind, "params": params, "rty": m.rty, "may_panic": m.may_panic, "text": text,
                               "calls": m.calls}
            self.emitted.append(name)          # callees were appended while translating the body: callee first
        except Refuse as e:
            self.skipped[name] = str(e)
        finally:
            self.active.pop()

    def sig(self, name, caller):
        if name == "peak_eq" or (name == "eq" and caller != "peak_eq"):
            raise Refuse("call of `%s`" % name)
        self.attempt(name)
        if name in self.skipped:
            raise Refuse("calls `%s`, which is skipped (%s)" % (name, self.skipped[name]))
        return self.done[name]


def translate():
    src = open(os.path.join(REPO, "src", "isotopic_pattern", "peak.rs"), encoding="utf-8").read()
    world = World(*file_structure(src))
    for name in WANTED:
        world.attempt(name)
    skipped = [n for n in WANTED if n in world.skipped]
    out = ["(* GENERATED by tools/gen_peak.py from src/isotopic_pattern/peak.rs -- do not edit *)",
           "From Coq Require Import ZArith Arith List Bool.", "From CE Require Import Num Peak ImpL.",
           "Import ListNotations.", "Local Open Scope list_scope.", ""]
    for n in world.emitted:
        out.append(world.done[n]["text"])
        out.append("")
    q = lambda names: "[" + "; ".join('"%s"' % n for n in names) + "]%string"
    out.append("(* what the translator did with the methods it was asked for (helpers such as len/new are translated on demand) *)")
    out.append("From Coq Require Import String.")
    out.append("Definition peak_gen_translated : list string := %s." % q([n for n in WANTED if n in world.done]))
    out.append("Definition peak_gen_skipped : list string := %s." % q(skipped))
    return "\n".join(out) + "\n", world


# ------------------------------------------------------------------ which ties of PeakTie.v still hold
def check_ties(world, field=False, only=None):
    """compile PeakTie.v block by block: common text + the block of one method + the blocks it needs
    (field=True: in field mode, see tools/tie_modes.py)"""
    import tie_modes
    if not tie_modes.compile_deps(COQ, ["model/TieTac.v", "model/ImpL.v", "gen/PeakGen.v"]):
        return 1
    bad = tie_modes.check_blocks(COQ, TIE, WANTED, world.skipped, field=field, only=only, stem="PeakTie")
    return 1 if bad else 0


def main():
    try:
        text, world = translate()
    except (Structure, OSError) as e:
        print("gen_peak: refused: %s" % e)
        return 3
    old = open(OUT).read() if os.path.exists(OUT) else None
    if old != text:
        open(OUT, "w").write(text)
    for n in WANTED:
        if n in world.skipped:
            print("skipped %s: %s" % (n, world.skipped[n]))
    print("gen_peak: %d methods translated (%s), %d skipped%s" % (
        len(world.emitted), ", ".join(world.emitted), len([n for n in WANTED if n in world.skipped]),
        "" if old == text else " [rewritten]"))
    import tie_modes
    ties, field, only = tie_modes.flags(sys.argv[1:])
    if ties:
        return check_ties(world, field, only)
    return 0


if __name__ == "__main__":
    sys.exit(main())
