#!/usr/bin/env python3
"""Acceptance driver for the FIELD-MODE source ties (coq/model/TieTac.v, tools/tie_modes.py).

For every case: a scratch copy of the crate's src/ is edited (string substitutions, or one of harmless/*.diff), the
translators concerned are run on it with `--ties` (strict mode) and `--ties --field` (field mode), and the per-function
lines `tie <f>: OK | FAILED | SKIPPED` are compared with what the kind of the case demands:

  base        unchanged source                            strict: all OK            field: all OK
  field       equal over every ordered field, not bit-    strict: the touched       field: all OK
              for-bit (fma, reciprocal, commuted or       functions FAILED
              re-associated operands)
  semantic    computes something else                     (strict: touched FAILED)  field: the touched functions FAILED/SKIPPED
  structural  a rewrite strict mode already tolerates     strict: all OK            field: all OK

Nothing outside a private working copy is written: tools/ and coq/ are copied into a temporary directory (one copy per
worker), so coq/gen/*.v of the real tree is never regenerated from an edited source.

  python3 tools/mutate_field.py [-j N] [--only=id,id] [--keep]
exit status 0 iff every case behaves as its kind demands."""
import concurrent.futures, os, re, shutil, subprocess, sys, tempfile, time, queue

TOOLS = os.path.dirname(os.path.abspath(__file__))
ROOT = os.path.dirname(TOOLS)
SRC = os.environ.get("VERIF_REPO", os.path.join(ROOT, "repo_src"))
HARMLESS = os.path.join(ROOT, "harmless")
PEAK, POIS, CONV, MZ = ("src/isotopic_pattern/peak.rs", "src/isotopic_pattern/poisson.rs",
                        "src/isotopic_pattern/convolution.rs", "src/mz.rs")
L, M = "src/composition_list.rs", "src/composition_map.rs"
MASS6 = ["v_calc_mass", "v_mass", "v_fmass", "m_calc_mass", "m_mass", "m_fmass"]
FMA = """            total = if elt_spec.isotope == 0 {
                element.most_abundant_mass
            } else {
                element.isotopes[&elt_spec.isotope].mass
            }
            .mul_add(*count as f64, total);"""
def nofma(stmt):
    return """            let m = if elt_spec.isotope == 0 {
                element.most_abundant_mass
            } else {
                element.isotopes[&elt_spec.isotope].mass
            };
            %s""" % stmt

TRUNC_SCAN = """            total += p.intensity;
            if total >= threshold {"""

# id, kind, translators (run in this order; gen_poisson runs gen_src itself), what is done,
#   edits [(file, old, new)] or "patch:<file in harmless/>", the functions that must be reported FAILED
#   (strict mode for kind field, field mode for kind semantic); comp cases other than H1 check the six mass functions only
CASES = [
 ("B0_unchanged", "base", ["src", "poisson", "conv", "peak", "comp"], "the source as it is", [], []),
 # ------------------------------------------------------------------ equal over every ordered field
 ("H1_mass_without_fma", "field", ["comp*"], "m.mul_add(n, total) -> total += m * n   (both composition types)",
  "patch:H1_mass_without_fma.diff", MASS6),
 ("H4_normalize_by_division", "field", ["peak"], "p.intensity *= 1.0/total -> p.intensity /= total",
  "patch:H4_normalize_by_division.diff", ["normalize", "truncate_after", "ignore_below", "clone_drop_last", "slice_normalized"]),
 ("H9_poisson_reciprocal", "field", ["poisson"], "p_i / fact -> p_i * (1.0 / fact)",
  "patch:H9_poisson_term_recurrence.diff", ["poisson_approximation_impl", "poisson_approximation"]),
 ("F1_peak_commute_mul", "field", ["peak"], "ignore_below_threshold * total -> total * ignore_below_threshold",
  [(PEAK, "ignore_below_threshold * total;", "total * ignore_below_threshold;")], ["truncate_after_ignore_below_shift_normalize"]),
 ("F2_peak_commute_add", "field", ["peak"], "total += p.intensity -> total = p.intensity + total   (truncate_after)",
  [(PEAK, TRUNC_SCAN, TRUNC_SCAN.replace("total += p.intensity;", "total = p.intensity + total;"))], ["truncate_after"]),
 ("F3_peak_scale_commute", "field", ["peak"], "p.intensity *= factor -> p.intensity = factor * p.intensity",
  [(PEAK, "p.intensity *= factor;", "p.intensity = factor * p.intensity;")], ["scale_by", "normalize"]),
 ("F4_peak_fused_reciprocal", "field", ["peak"], "peak.intensity /= total -> peak.intensity *= 1.0 / total   (fused)",
  [(PEAK, "peak.intensity /= total;", "peak.intensity *= 1.0 / total;")], ["truncate_after_ignore_below_shift_normalize"]),
 ("F5_peak_sub_as_add_neg", "field", ["peak"], "(a - b).abs() -> (a + (-b)).abs(), total -= x -> total += -x",
  [(PEAK, "(self.mz - other.mz).abs()", "(self.mz + (-other.mz)).abs()"),
   (PEAK, "total -= peak.intensity;", "total += -peak.intensity;")], ["peak_eq", "truncate_after_ignore_below_shift_normalize"]),
 ("F6_poisson_commute_mul", "field", ["poisson"], "p_i *= lambda -> p_i = lambda * p_i   (both loops)",
  [(POIS, "p_i *= lambda;", "p_i = lambda * p_i;")], ["poisson_approximation_impl", "poisson_approximate_n_peaks_of_impl"]),
 ("F7_poisson_commute_add", "field", ["poisson"], "total += cur -> total = cur + total;  acc += cur -> acc = cur + acc",
  [(POIS, "total += cur_intensity;", "total = cur_intensity + total;"), (POIS, "acc += cur_intensity;", "acc = cur_intensity + acc;")],
  ["poisson_approximation_impl", "poisson_approximate_n_peaks_of_impl"]),
 ("F8_poisson_reassociated_sum", "field", ["poisson"],
  "mass_charge_ratio inlined with the sum re-associated: (mass + (i*NS + z*PROTON)) / |z|",
  [(POIS, "            mass_charge_ratio(neutral, charge, PROTON)",
          "            (mass + ((i as f64 * NEUTRON_SHIFT) + (charge as f64 * PROTON))) / (charge as f64).abs()")],
  ["poisson_approximation_impl"]),
 ("F9_conv_commute_mul", "field", ["conv"], "inten * iso_abundance -> iso_abundance * inten",
  [(CONV, "let abundance = inten * iso_abundance;", "let abundance = iso_abundance * inten;")], ["convolve_with", "convolve_pow"]),
 ("F10_conv_commute_add", "field", ["conv"], "mz + iso_mass -> iso_mass + mz",
  [(CONV, "out.push((mz + iso_mass, abundance))", "out.push((iso_mass + mz, abundance))")], ["convolve_with", "convolve_pow"]),
 ("F11_mz_commute_mul", "field", ["src", "poisson"], "zf * charge_carrier -> charge_carrier * zf   (mass_charge_ratio)",
  [(MZ, "(neutral_mass + (zf * charge_carrier)) / zf.abs()", "(neutral_mass + (charge_carrier * zf)) / zf.abs()")],
  ["mass_charge_ratio", "poisson_approximation_impl"]),
 ("F12_mz_commute_add", "field", ["src", "poisson"], "neutral_mass + (..) -> (..) + neutral_mass",
  [(MZ, "(neutral_mass + (zf * charge_carrier)) / zf.abs()", "((zf * charge_carrier) + neutral_mass) / zf.abs()")],
  ["mass_charge_ratio", "poisson_approximation_impl"]),
 ("F13_mz_distribute_division", "field", ["src", "poisson"], "(m + z*c) / |z| -> m / |z| + (z*c) / |z|",
  [(MZ, "(neutral_mass + (zf * charge_carrier)) / zf.abs()", "neutral_mass / zf.abs() + (zf * charge_carrier) / zf.abs()")],
  ["mass_charge_ratio", "poisson_approximation_impl"]),
 ("F14_mz_reassociated_sum", "field", ["src"], "a - b -> (a + c) - (b + c)   (neutral_mass)",
  [(MZ, "(mz * zf.abs()) - (zf * charge_carrier)", "((mz * zf.abs()) + charge_carrier) - ((zf * charge_carrier) + charge_carrier)")],
  ["neutral_mass"]),
 ("F15_comp_fma_operands", "field", ["comp"], "m.mul_add(n, total) -> n.mul_add(m, total)   (list form)",
  [(L, FMA, nofma("total = (*count as f64).mul_add(m, total);"))], ["v_calc_mass", "v_mass", "v_fmass"]),
 # ------------------------------------------------------------------ something else is computed
 ("S1_peak_ge_to_gt", "semantic", ["peak"], "total >= threshold -> total > threshold",
  [(PEAK, TRUNC_SCAN, TRUNC_SCAN.replace(">=", ">"))], ["truncate_after"]),
 ("S2_peak_minus_to_plus", "semantic", ["peak"], "total -= peak.intensity -> total += peak.intensity",
  [(PEAK, "total -= peak.intensity;", "total += peak.intensity;")], ["truncate_after_ignore_below_shift_normalize"]),
 ("S3_peak_literal", "semantic", ["peak"], "1e-3 -> 1e-2 (first tolerance of Peak::eq)",
  [(PEAK, "(self.mz - other.mz).abs() > 1e-3", "(self.mz - other.mz).abs() > 1e-2")], ["peak_eq"]),
 ("S4_peak_dropped_normalize", "semantic", ["peak"], "truncate_after returns self without normalize()",
  [(PEAK, "        self.peaks.truncate(stop_index + 1);\n        self.normalize()", "        self.peaks.truncate(stop_index + 1);\n        self")],
  ["truncate_after"]),
 ("S5_peak_swapped_division", "semantic", ["peak"], "1.0 / total -> total / 1.0",
  [(PEAK, "self.scale_by(1.0 / total)", "self.scale_by(total / 1.0)")], ["normalize", "truncate_after", "ignore_below"]),
 ("S6_peak_wrong_sum", "semantic", ["peak"], "the threshold is compared with the peak's intensity, not the running sum",
  [(PEAK, TRUNC_SCAN, TRUNC_SCAN.replace("if total >=", "if p.intensity >="))], ["truncate_after"]),
 ("S7_peak_unscaled_threshold", "semantic", ["peak"], "ignore_below_threshold is not multiplied by the total",
  [(PEAK, "let ignore_below_threshold = ignore_below_threshold * total;", "let ignore_below_threshold = ignore_below_threshold;")],
  ["truncate_after_ignore_below_shift_normalize"]),
 ("S8_peak_off_by_one", "semantic", ["peak"], "truncate(stop_index + 1) -> truncate(stop_index)   (truncate_after)",
  [(PEAK, "        self.peaks.truncate(stop_index + 1);\n        self.normalize()", "        self.peaks.truncate(stop_index);\n        self.normalize()")],
  ["truncate_after"]),
 ("S9_peak_no_break", "semantic", ["peak"], "the scan of truncate_after does not break",
  [(PEAK, "            if total >= threshold {\n                stop_index = i;\n                break;", "            if total >= threshold {\n                stop_index = i;")],
  ["truncate_after"]),
 ("S10_poisson_swapped_division", "semantic", ["poisson"], "p_i / factorial_acc -> factorial_acc / p_i",
  [(POIS, "let cur_intensity = p_i / factorial_acc;", "let cur_intensity = factorial_acc / p_i;")],
  ["poisson_approximation_impl", "poisson_approximate_n_peaks_of_impl"]),
 ("S11_poisson_swapped_subtraction", "semantic", ["poisson"], "1.0 - threshold -> threshold - 1.0",
  [(POIS, "let target_threshold = 1.0 - threshold;", "let target_threshold = threshold - 1.0;")], ["poisson_approximate_n_peaks_of_impl"]),
 ("S12_poisson_loop_bound", "semantic", ["poisson"], "for i in 1..n_peaks -> for i in 0..n_peaks",
  [(POIS, "for i in 1..n_peaks {", "for i in 0..n_peaks {")], ["poisson_approximation_impl"]),
 ("S13_poisson_lt_to_le", "semantic", ["poisson"], "cur / acc < target -> cur / acc <= target",
  [(POIS, "if cur_intensity / acc < target_threshold {", "if cur_intensity / acc <= target_threshold {")], ["poisson_approximate_n_peaks_of_impl"]),
 ("S14_poisson_plus_to_minus", "semantic", ["poisson"], "total += cur -> total -= cur",
  [(POIS, "total += cur_intensity;", "total -= cur_intensity;")], ["poisson_approximation_impl"]),
 ("S15_poisson_max_iter", "semantic", ["poisson"], "255 -> 256",
  [(POIS, "threshold, 255)", "threshold, 256)")], ["poisson_approximate_n_peaks_of"]),
 ("S16_conv_lt_to_le", "semantic", ["conv"], "abundance < threshold -> abundance <= threshold",
  [(CONV, "if abundance < abundance_threshold {", "if abundance <= abundance_threshold {")], ["convolve_with", "convolve_pow"]),
 ("S17_conv_plus_to_minus", "semantic", ["conv"], "mz + iso_mass -> mz - iso_mass",
  [(CONV, "out.push((mz + iso_mass, abundance))", "out.push((mz - iso_mass, abundance))")], ["convolve_with", "convolve_pow"]),
 ("S18_conv_continue_to_break", "semantic", ["conv"], "continue -> break",
  [(CONV, "                continue;", "                break;")], ["convolve_with", "convolve_pow"]),
 ("S19_conv_wrong_factor", "semantic", ["conv"], "inten * iso_abundance -> inten * iso_mass",
  [(CONV, "let abundance = inten * iso_abundance;", "let abundance = inten * iso_mass;")], ["convolve_with", "convolve_pow"]),
 ("S20_mz_abs_dropped", "semantic", ["src", "poisson"], "/ zf.abs() -> / zf",
  [(MZ, "(neutral_mass + (zf * charge_carrier)) / zf.abs()", "(neutral_mass + (zf * charge_carrier)) / zf")],
  ["mass_charge_ratio", "poisson_approximation_impl"]),
 ("S21_mz_swapped_subtraction", "semantic", ["src"], "a - b -> b - a   (neutral_mass)",
  [(MZ, "(mz * zf.abs()) - (zf * charge_carrier)", "(zf * charge_carrier) - (mz * zf.abs())")], ["neutral_mass"]),
 ("S22_mz_literal", "semantic", ["src", "poisson"], "PROTON 1.007276 -> 1.007277",
  [(MZ, "1.007276", "1.007277")], ["PROTON", "poisson_approximation_impl"]),
 ("S23_comp_minus", "semantic", ["comp"], "total += m * n -> total -= m * n   (list form)",
  [(L, FMA, nofma("total -= m * (*count as f64);"))], ["v_calc_mass", "v_mass", "v_fmass"]),
 ("S24_comp_fma_wrong_operands", "semantic", ["comp"], "m.mul_add(n, total) -> m.mul_add(total, n)   (map form)",
  [(M, FMA, nofma("total = m.mul_add(total, *count as f64);"))], ["m_calc_mass", "m_mass", "m_fmass"]),
 ("S25_comp_start_value", "semantic", ["comp"], "let mut total = 0.0 -> 1.0   (calc_mass of the list form)",
  [(L, "        let mut total = 0.0;\n        for (elt_spec, count) in &self.composition {", "        let mut total = 1.0;\n        for (elt_spec, count) in &self.composition {")],
  ["v_calc_mass", "v_mass", "v_fmass"]),
 # ------------------------------------------------------------------ rewrites strict mode tolerates
 ("T1_peak_expanded_assignment", "structural", ["peak"], "total += p.intensity -> total = total + p.intensity",
  [(PEAK, TRUNC_SCAN, TRUNC_SCAN.replace("total += p.intensity;", "total = total + p.intensity;"))], []),
 ("T2_poisson_expanded_assignment", "structural", ["poisson"], "p_i *= lambda -> p_i = p_i * lambda",
  [(POIS, "p_i *= lambda;", "p_i = p_i * lambda;")], []),
 ("T3_conv_parentheses", "structural", ["conv"], "extra parentheses and a temporary",
  [(CONV, "let abundance = inten * iso_abundance;", "let abundance = (inten * (iso_abundance));"),
   (CONV, "out.push((mz + iso_mass, abundance))", "let shifted = mz + iso_mass;\n            out.push((shifted, abundance))")], []),
 ("T4_mz_parentheses", "structural", ["src", "poisson"], "parentheses removed",
  [(MZ, "(neutral_mass + (zf * charge_carrier)) / zf.abs()", "(neutral_mass + zf * charge_carrier) / zf.abs()")], []),
 ("T5_comp_temporary", "structural", ["comp"], "the fma chain through a temporary `m` (list form)",
  [(L, FMA, nofma("total = m.mul_add(*count as f64, total);"))], []),
 ("T6_peak_renamed_local", "structural", ["peak"], "normalize: local `total` renamed",
  [(PEAK, "        let total = self.total();\n        self.scale_by(1.0 / total)", "        let sum = self.total();\n        self.scale_by(1.0 / sum)")], []),
]

GEN = {"src": "gen_src.py", "poisson": "gen_poisson.py", "conv": "gen_conv.py", "peak": "gen_peak.py", "comp": "gen_comp.py"}
LINE = re.compile(r"^tie (\w+): (OK|FAILED|SKIPPED)")


def sh(args, cwd=None, env=None):
    return subprocess.run(args, cwd=cwd, env=env, stdout=subprocess.PIPE, stderr=subprocess.STDOUT, universal_newlines=True)


def make_universe(base, k):
    u = os.path.join(base, "u%d" % k)
    os.makedirs(u)
    shutil.copytree(os.path.join(ROOT, "tools"), os.path.join(u, "tools"), ignore=shutil.ignore_patterns("__pycache__"))
    shutil.copytree(os.path.join(ROOT, "coq"), os.path.join(u, "coq"), ignore=shutil.ignore_patterns("extract", "*.glob", "*.aux"))
    return u


def run_case(case, universes, base):
    cid, kind, gens, what, edits, touched = case
    u = universes.get()
    t0 = time.time()
    try:
        scratch = os.path.join(base, "src_" + cid)
        os.makedirs(scratch)
        shutil.copytree(os.path.join(SRC, "src"), os.path.join(scratch, "src"))
        if isinstance(edits, str):
            r = sh(["patch", "-p1", "-s", "-i", os.path.join(HARMLESS, edits[len("patch:"):])], cwd=scratch)
            if r.returncode != 0:
                return cid, {"error": "patch failed: " + r.stdout[-200:]}
        else:
            for f, old, new in edits:
                p = os.path.join(scratch, f)
                s = open(p, encoding="utf-8").read()
                if old not in s:
                    return cid, {"error": "edit does not apply to %s: %r" % (f, old[:50])}
                open(p, "w", encoding="utf-8").write(s.replace(old, new))
        env = dict(os.environ, VERIF_REPO=scratch)
        res = {"strict": {}, "field": {}, "notes": []}
        for g in gens:
            full = g.endswith("*")
            g = g.rstrip("*")
            only = ["--only=" + ",".join(MASS6)] if (g == "comp" and not full and kind != "base") else []
            for mode, flag in (("strict", []), ("field", ["--field"])):
                r = sh([sys.executable, os.path.join(u, "tools", GEN[g]), "--ties"] + flag + only, env=env)
                seen = 0
                for line in r.stdout.splitlines():
                    m = LINE.match(line)
                    if m:
                        res[mode][m.group(1)] = m.group(2)
                        seen += 1
                if seen == 0:
                    res["notes"].append("%s %s: no tie lines (exit %d): %s" % (g, mode, r.returncode, r.stdout.strip()[-160:]))
                    res[mode]["<%s>" % g] = "SKIPPED"
        res["time"] = time.time() - t0
        return cid, res
    finally:
        universes.put(u)


def verdict(case, res):
    cid, kind, gens, what, edits, touched = case
    if "error" in res:
        return False, res["error"]
    bad = lambda mode: sorted(n for n, s in res[mode].items() if s != "OK")
    sb, fb = bad("strict"), bad("field")
    if not res["strict"] or not res["field"]:
        return False, "no ties reported"
    if kind in ("base", "structural"):
        ok = not sb and not fb
        return ok, "" if ok else "expected every tie OK in both modes"
    if kind == "field":
        miss = [t for t in touched if t not in sb]
        if fb:
            return False, "field mode does not accept: " + " ".join(fb)
        if not sb:
            return False, "strict mode accepts the change (not a test of field mode)"
        return (not miss), ("strict mode still accepts " + " ".join(miss) if miss else "")
    if kind == "semantic":
        miss = [t for t in touched if t not in fb]
        return (not miss), ("FIELD MODE ACCEPTS " + " ".join(miss) if miss else "")
    return False, "unknown kind"


def main():
    jobs, only, keep = 6, None, "--keep" in sys.argv
    args = sys.argv[1:]
    for i, a in enumerate(args):
        if a == "-j":
            jobs = int(args[i + 1])
        elif a.startswith("-j") and a[2:].isdigit():
            jobs = int(a[2:])
        elif a.startswith("--only="):
            only = a[len("--only="):].split(",")
    cases = [c for c in CASES if only is None or c[0] in only or c[0].split("_")[0] in only]
    base = tempfile.mkdtemp(prefix="mutate_field_", dir=os.environ.get("TMPDIR", "/tmp"))
    jobs = max(1, min(jobs, len(cases)))
    universes = queue.Queue()
    for k in range(jobs):
        universes.put(make_universe(base, k))
    results = {}
    with concurrent.futures.ThreadPoolExecutor(max_workers=jobs) as ex:
        for cid, res in ex.map(lambda c: run_case(c, universes, base), cases):
            results[cid] = res
    short = lambda names: (" ".join(names) if len(names) <= 4 else " ".join(names[:4]) + " +%d" % (len(names) - 4)) or "-"
    print("%-30s %-10s %-20s %-8s %-8s %s" % ("case", "kind", "translators", "strict", "field", "result"))
    print("-" * 118)
    allok = True
    for c in cases:
        res = results[c[0]]
        ok, why = verdict(c, res)
        allok &= ok
        if "error" in res:
            print("%-30s %-10s %-20s %-8s %-8s %s" % (c[0], c[1], ",".join(c[2]), "?", "?", "ERROR " + why))
            continue
        col = {}
        for mode in ("strict", "field"):
            n = len(res[mode])
            nb = len([1 for s in res[mode].values() if s != "OK"])
            col[mode] = "%d/%d OK" % (n - nb, n)
        print("%-30s %-10s %-20s %-8s %-8s %s%s" % (c[0], c[1], ",".join(c[2]), col["strict"], col["field"],
                                                    "pass" if ok else "FAIL", (": " + why) if why else ""))
        print("    %s   [%.0f s]" % (c[3], res.get("time", 0)))
        for mode in ("strict", "field"):
            b = sorted(n for n, s in res[mode].items() if s != "OK")
            if b:
                print("    %-6s not OK: %s" % (mode, " ".join("%s(%s)" % (n, res[mode][n][0]) for n in b)))
        for n in res["notes"]:
            print("    note: " + n)
    kinds = {}
    for c in cases:
        k = kinds.setdefault(c[1], [0, 0])
        k[1] += 1
        k[0] += 1 if verdict(c, results[c[0]])[0] else 0
    print("-" * 118)
    print("summary: " + ", ".join("%s %d/%d" % (k, v[0], v[1]) for k, v in kinds.items()) + (" -- ALL AS EXPECTED" if allok else " -- MISMATCH"))
    if keep:
        print("working copies kept in " + base)
    else:
        shutil.rmtree(base, ignore_errors=True)
    return 0 if allok else 1


if __name__ == "__main__":
    sys.exit(main())
