#!/usr/bin/env python3
"""Translate the numeric core of src/isotopic_pattern/convolution.rs - the private functions `convolve_with` and
`convolve_pow` (imperative Rust: nested `for` loops over slices of (f64, f64) pairs with `continue`/`break`, `&mut Vec`
out-parameters, a `while` loop on an i32, buffer swapping, a self-recursive call) - into a SHALLOW embedding in Gallina
over the numeric interface `Num` -> coq/gen/ConvGen.v.  coq/proofs/ConvTie.v then proves that the hand-written model
coq/model/Conv.v computes exactly what this translation computes.  (The public `isotopic_convolution` of the same file
iterates a HashMap-backed composition and ends in sort + normalize: not translated, and not looked at.)

The translation is a direct transcription in state-passing style (combinators: coq/model/ImpW.v):
  * a function `fn f(.., out: &mut Vec<(f64, f64)>, ..)` (no result) becomes a function that takes the value of `out`
    on entry and RETURNS its value on exit (several `&mut` parameters: the tuple of them, in parameter order)
  * `let x = e;` / `let mut x = e;`            ->  let x := e in ...
  * `x op= e;` / `x = e;`                      ->  let x := op x e in ...         (Gallina shadowing = the new value)
  * `v.push((a, b));`                          ->  let v := v ++ [(a, b)] in ...
  * `v.extend_from_slice(s);`                  ->  let v := v ++ s in ...
  * `v.clear();`                               ->  let v := [] in ...
  * `swap(&mut a, b);`                         ->  let '(a, b) := (b, a) in ...   (swap must be std::mem::swap)
  * `g(&s, t, &mut v, x);`                     ->  let v := g_gen N s t v x in ...   (v: the `&mut` argument)
  * `f(..)` inside f itself                    ->  let v := f_rec .. in ...       (see below)
  * `Vec::new()`, `Vec::with_capacity(e)`      ->  []   (e must be a well-typed usize expression; it is then dropped)
  * `Vec::from(s)` (s a slice)                 ->  s
  * `if c {A} else if d {B} else {C}`          ->  let '(xs) := (if c then A;(xs) else if d then B;(xs) else C;(xs)) in ...
                                                   where xs are the outer places A, B or C assign, in declaration order
  * `for (a, b) in s.iter().copied() { body }` ->  let '(xs) := for_each s (fun '(a, b) '(xs) => body; (xs)) (xs) in ...
       `continue;` in the body                 ->  (xs)          (the current values; the rest of the body is skipped:
                                                   an `if` that contains a jump continues INSIDE its other branches)
       with a `break;` of this loop            ->  for_each_brk; normal end / `continue` = inl (xs), `break` = inr (xs)
  * `while c { body }`                         ->  let '(xs) := while_fuel wfuel (fun '(xs) => c) (fun '(xs) => body; (xs)) (xs)
  * f64 -> F, i32 -> Z, usize -> nat, `&[(f64, f64)]` / `&mut Vec<(f64, f64)>` / `Vec<(f64, f64)>` -> list (F * F),
    literal 1.0 -> one N, 0.0 -> zero N, other float literals as in gen_src.py.
  * i32 arithmetic `+ - *` -> Z.add/Z.sub/Z.mul (EXACT only in the absence of i32 overflow: Rust panics or wraps, Z does
    neither), `a / <positive literal>` -> Z.quot (Rust's `/` truncates toward zero: that IS Z.quot, for either sign;
    it is Z.div only for a >= 0, which a user of the generated text has to prove), comparisons -> Z.eqb/ltb/leb.
    usize: `+ * /` -> Nat.add/mul/div, `-` refused (underflow).  An integer literal takes the type of what it meets
    (`let mut power = 2; .. power <= n` with n: i32 makes `power` an i32); undetermined: refused.

FUEL.  Gallina has neither unbounded loops nor general recursion.  A function that contains a `while` gets a parameter
`wfuel` (at most wfuel iterations per `while`), a self-recursive one a parameter `rfuel` (recursion depth; at depth 0 the
function returns its `&mut` arguments unchanged): these are the definitions `f_fuel_gen`; and
      f_gen := f_fuel_gen with wfuel = rfuel = 64.
The fuel-bounded function is the Rust function only where the fuel is not exhausted; proving that (loop exits by its
condition; result independent of the fuel from 64 on) is the business of the tie proof, not of this translator.

Everything else is REFUSED: the translator prints the offending construct and exits with status 3; it never guesses.
The output is deterministic and is rewritten only when it changes.

GRAMMAR (of the two functions; they are cut out of the file - which is cut at `#[cfg(test)]` - by name: each must be
defined exactly once, at the start of a line, optionally `pub`, without attributes; comments are skipped)
  fn      := 'fn' name '(' [param (',' param)* [',']] ')' block           (no generics, no result type)
  param   := name ':' ptype
  ptype   := 'f64' | 'i32' | 'usize' | '&' '[' pair ']' | '&' 'mut' 'Vec' '<' pair '>'        pair := '(' 'f64' ',' 'f64' ')'
  block   := '{' stmt* [ustmt] '}'
  stmt    := 'let' ['mut'] name [':' ltype] '=' rhs ';'
           | name ('='|'+='|'-='|'*='|'/=') expr ';'
           | ustmt ';'
           | 'if' expr block ('else' 'if' expr block)* ['else' block]
           | 'for' '(' name ',' name ')' 'in' name '.' 'iter' '(' ')' '.' 'copied' '(' ')' block
           | 'while' expr block
           | 'continue' ';' | 'break' ';'                 (last in their block; directly in a `for` body or its ifs)
  ustmt   := name '.' 'push' '(' '(' expr ',' expr ')' ')'
           | name '.' 'extend_from_slice' '(' name ')'  |  name '.' 'extend_from_slice' '(' '&' name ')'
           | name '.' 'clear' '(' ')'
           | 'swap' '(' place ',' place ')'                place := '&' 'mut' name | name      (name: a `&mut` parameter)
           | fname '(' [arg (',' arg)* [',']] ')'          arg := expr | '&' name | '&' 'mut' name
  ltype   := 'f64' | 'i32' | 'usize' | 'Vec' '<' ('_' | pair) '>'
  rhs     := expr | 'Vec' '::' 'new' '(' ')' | 'Vec' '::' 'with_capacity' '(' expr ')' | 'Vec' '::' 'from' '(' name ')'
  expr    := arith [('=='|'!='|'<'|'<='|'>'|'>=') arith]
  arith   := term (('+'|'-') term)*     term := unary (('*'|'/') unary)*     unary := '-' unary | postfix
  postfix := primary | name '.' 'len' '(' ')'
  primary := float | int | name | '(' expr ')'
Typing is checked (f64 / i32 / usize / bool / the three list-of-pairs types); no shadowing; loops and statement-ifs
must change at least one outer place; the iterated slice and `&` arguments of a call must not be among the places the
loop / the call changes; integer division only by a positive literal; no `break`/`continue` inside `while`; statements
after `continue`/`break` are refused; mutual recursion is refused.

  python3 tools/gen_conv.py                    regenerate coq/gen/ConvGen.v
  python3 tools/gen_conv.py --ties             additionally compile coq/proofs/ConvTie.v block by block (convolve_with,
                                               convolve_pow) and print `tie <f>: OK | FAILED (..) | SKIPPED (..)`
  python3 tools/gen_conv.py --ties --field     the same in FIELD MODE (tools/tie_modes.py, coq/model/TieTac.v)
  --only=a,b                                   (with --ties) only the named functions"""
import os, re, sys
sys.path.insert(0, os.path.dirname(os.path.abspath(__file__)))
import gen_poisson
from gen_src import Refuse, float_lit
from gen_poisson import TOK, ind, strip

REPO = os.environ.get("VERIF_REPO", "/repo")
OUT = os.path.join(os.path.dirname(os.path.dirname(os.path.abspath(__file__))), "coq", "gen", "ConvGen.v")
SRC = os.path.join("src", "isotopic_pattern", "convolution.rs")
WANTED = ["convolve_with", "convolve_pow"]
FUEL = 64

RESERVED = set(gen_poisson.RESERVED) | set("""for_each for_each_brk while_fuel while_run wfuel rfuel length map flat_map
 fold_left quot pair prod None Some option unit tt true false S O""".split())

PAIRS = "list (F * F)"
LISTY = ("slice", "vec", "mutvec")


# ------------------------------------------------------------------ cutting the functions out of the file
def blank_comments(src):
    def blank(m):
        return re.sub(r"[^\n]", " ", m.group(0))
    return re.sub(r"//[^\n]*|/\*.*?\*/", blank, src, flags=re.S)


def fn_tokens(src, name):
    """the tokens of the one definition of `fn name`, from `fn` to the brace that closes its body"""
    found = list(re.finditer(r"\bfn\s+%s\b" % re.escape(name), src))
    if len(found) != 1:
        raise Refuse("`fn %s` is defined %d times in %s" % (name, len(found), SRC))
    m = found[0]
    bol = src.rfind("\n", 0, m.start()) + 1
    before = src[bol:m.start()]
    if before not in ("", "pub "):
        raise Refuse("`fn %s`: qualifiers or indentation %r before `fn` (a private or `pub` top-level fn is expected)" % (name, before))
    prev = src[:bol].rstrip().split("\n")[-1].strip() if src[:bol].strip() else ""
    if prev.startswith("#") or prev.endswith("]"):
        raise Refuse("`fn %s`: attribute `%s`" % (name, prev))
    pos, depth, out, opened = m.start(), 0, [], False
    while True:
        if src[pos:].strip() == "":
            raise Refuse("`fn %s`: unterminated body" % name)
        t = TOK.match(src, pos)
        if not t:
            raise Refuse("cannot tokenize at: %r" % src[pos:pos + 30].strip())
        pos = t.end()
        if t.group(1):
            continue
        kind = "float" if t.group(2) else "int" if t.group(3) else "id" if t.group(4) else "op"
        val = t.group(2) or t.group(3) or t.group(4) or t.group(5)
        out.append((kind, val))
        if (kind, val) == ("op", "{"):
            depth += 1
            opened = True
        elif (kind, val) == ("op", "}"):
            depth -= 1
            if depth < 0:
                raise Refuse("`fn %s`: unbalanced braces" % name)
            if opened and depth == 0:
                return out
        elif (kind, val) == ("op", ";") and not opened:
            raise Refuse("`fn %s`: declaration without a body" % name)


# ------------------------------------------------------------------ parsing to an AST (tuples)
CMP = ("==", "!=", "<", "<=", ">", ">=")
KEYWORDS = ("match", "loop", "while", "for", "unsafe", "move", "return", "break", "continue", "let", "mut", "as", "fn",
            "true", "false", "if", "else", "in", "ref", "self", "Self", "struct", "impl", "dyn", "async", "await")


class Parser:
    def __init__(self, toks, fname):
        self.t, self.i, self.fname = toks, 0, fname

    def peek(self, k=0):
        return self.t[self.i + k] if self.i + k < len(self.t) else ("eof", "<end of function>")

    def at(self, *vals):
        return all(self.peek(k)[1] == v and self.peek(k)[0] != "eof" for k, v in enumerate(vals))

    def context(self):
        return " ".join(v for _, v in self.t[max(0, self.i - 4):self.i + 6])

    def refuse(self, what):
        raise Refuse("fn %s: %s near `%s`" % (self.fname, what, self.context()))

    def take(self, val=None, kind=None):
        k, v = self.peek()
        if (val is not None and (v != val or k == "eof")) or (kind is not None and k != kind):
            self.refuse("expected %s, found %r" % (val or kind, v))
        self.i += 1
        return v

    def name(self):
        k, v = self.peek()
        if k != "id" or v in KEYWORDS:
            self.refuse("expected a name, found %r" % v)
        self.i += 1
        return v

    def pair_type(self):
        for v in ("(", "f64", ",", "f64", ")"):
            if not self.at(v):
                self.refuse("element type other than (f64, f64)")
            self.take()

    def param_type(self):
        if self.at("&"):
            self.take()
            if self.at("'"):
                self.refuse("lifetime")
            if self.at("mut"):
                self.take()
                if not self.at("Vec", "<"):
                    self.refuse("`&mut` parameter that is not a Vec<(f64, f64)>")
                self.take(); self.take()
                self.pair_type()
                self.take(">")
                return "mutvec"
            if not self.at("["):
                self.refuse("reference parameter that is not a slice &[(f64, f64)]")
            self.take()
            self.pair_type()
            self.take("]")
            return "slice"
        ty = self.take(kind="id")
        if ty not in ("f64", "i32", "usize"):
            self.refuse("parameter type %r" % ty)
        if self.peek()[1] in ("<", "::"):
            self.refuse("generic or path type")
        return ty

    def let_type(self):
        if self.at("Vec"):
            self.take(); self.take("<")
            if self.at("_"):
                self.take()
            else:
                self.pair_type()
            self.take(">")
            return "vec"
        ty = self.take(kind="id")
        if ty not in ("f64", "i32", "usize") or self.peek()[1] in ("<", "::"):
            self.refuse("type %r of a `let`" % ty)
        return ty

    # ---- expressions
    def expr(self):
        a = self.arith()
        if self.peek()[1] in CMP:
            op = self.take()
            b = self.arith()
            if self.peek()[1] in CMP:
                self.refuse("chained comparison")
            a = ("cmp", op, a, b)
        if self.peek()[1] in ("&&", "||", "..", "..=", "?", "&", "^", "<<", ">>", "%", "|", "as", "!"):
            self.refuse("operator %r" % self.peek()[1])
        return a

    def arith(self):
        a = self.term()
        while self.peek()[1] in ("+", "-"):
            op = self.take()
            a = ("bin", op, a, self.term())
        return a

    def term(self):
        a = self.unary()
        while self.peek()[1] in ("*", "/"):
            op = self.take()
            a = ("bin", op, a, self.unary())
        if self.peek()[1] == "%":
            self.refuse("operator '%'")
        return a

    def unary(self):
        if self.peek() == ("op", "-"):
            self.take()
            return ("neg", self.unary())
        if self.peek()[1] in ("!", "&", "*"):
            self.refuse("unary operator %r in an expression" % self.peek()[1])
        return self.postfix()

    def postfix(self):
        a = self.primary()
        while self.at("."):
            if a[0] == "var" and self.at(".", "len", "(", ")"):
                self.i += 4
                a = ("len", a[1])
            else:
                self.refuse("method or field `.%s`" % self.peek(1)[1])
        if self.at("["):
            self.refuse("indexing")
        if self.peek() == ("id", "as"):
            self.refuse("cast `as`")
        return a

    def primary(self):
        k, v = self.peek()
        if k == "float":
            self.take()
            return ("float", v)
        if k == "int":
            self.take()
            if self.peek()[0] == "id" and re.fullmatch(r"[iuf]\d+|usize|isize", self.peek()[1]):
                self.refuse("suffixed literal")
            return ("int", v.replace("_", ""))
        if (k, v) == ("op", "("):
            self.take()
            a = self.expr()
            if self.at(","):
                self.refuse("tuple expression (only as the argument of push)")
            self.take(")")
            return ("paren", a)
        if k == "id":
            if v in KEYWORDS:
                self.refuse("%r in expression position" % v)
            self.take()
            if self.at("::"):
                self.refuse("path expression `%s::`" % v)
            if self.at("!"):
                self.refuse("macro `%s!`" % v)
            if self.at("("):
                self.refuse("call `%s(..)` in expression position (functions of the subset return nothing)" % v)
            if self.at("{"):
                pass            # `if x {`, `while x {`: the block of the statement
            return ("var", v)
        self.refuse("unexpected %r" % v)

    # ---- statements
    def block(self):
        self.take("{")
        stmts, closed = [], False
        while not self.at("}"):
            if closed:
                self.refuse("a statement after an expression without `;`")
            k, v = self.peek()
            if k == "eof":
                self.refuse("unterminated block")
            if (k, v) == ("id", "let"):
                self.take()
                mut = False
                if self.peek() == ("id", "mut"):
                    self.take(); mut = True
                if self.peek()[0] != "id":
                    self.refuse("pattern in `let`")
                x = self.name()
                ty = None
                if self.at(":"):
                    self.take(); ty = self.let_type()
                if not self.at("="):
                    self.refuse("`let` without initialiser")
                self.take("=")
                stmts.append(("let", mut, x, ty, self.rhs()))
                self.take(";")
            elif (k, v) == ("id", "if"):
                stmts.append(self.if_())
                if self.at(";"):
                    self.take()
            elif (k, v) == ("id", "for"):
                self.take()
                if not self.at("("):
                    self.refuse("`for` whose pattern is not a pair `(a, b)`")
                self.take("("); a = self.name(); self.take(","); b = self.name(); self.take(")")
                self.take("in")
                xs = self.name()
                for w in (".", "iter", "(", ")", ".", "copied", "(", ")"):
                    if not self.at(w):
                        self.refuse("`for` over something other than `<name>.iter().copied()`")
                    self.take()
                stmts.append(("foreach", a, b, xs, self.block()))
            elif (k, v) == ("id", "while"):
                self.take()
                if self.peek() == ("id", "let"):
                    self.refuse("`while let`")
                c = self.expr()
                stmts.append(("while", c, self.block()))
            elif (k, v) in (("id", "continue"), ("id", "break")):
                self.take()
                if not self.at(";"):
                    self.refuse("`%s` with a label or value, or without `;`" % v)
                self.take(";")
                stmts.append((v,))
            elif (k, v) in (("id", "return"), ("id", "loop"), ("id", "match"), ("id", "unsafe")):
                self.refuse("`%s`" % v)
            elif k == "id" and self.peek(1)[1] in ("=", "+=", "-=", "*=", "/="):
                x = self.name(); op = self.take()
                stmts.append(("asg", x, op, self.expr()))
                self.take(";")
            elif k == "id" and self.peek(1)[1] in ("%=", "<<", ">>", "&", "|", "^") and self.peek(2)[1] == "=":
                self.refuse("compound assignment")
            elif k == "id" and self.peek(1)[1] == "." and self.peek(2)[0] == "id" and self.peek(3)[1] == "(":
                x = self.name(); self.take("."); meth = self.take(); self.take("(")
                if meth == "push":
                    if not self.at("("):
                        self.refuse("push of something other than a pair `(a, b)`")
                    self.take("("); e1 = self.expr(); self.take(","); e2 = self.expr()
                    if self.at(","):
                        self.refuse("tuple of more than two components")
                    self.take(")"); self.take(")")
                    stmts.append(("push", x, e1, e2))
                elif meth == "extend_from_slice":
                    ref = False
                    if self.at("&"):
                        self.take(); ref = True
                        if self.at("mut"):
                            self.refuse("`&mut` argument of extend_from_slice")
                    y = self.name(); self.take(")")
                    stmts.append(("extend", x, y, ref))
                elif meth == "clear":
                    self.take(")")
                    stmts.append(("clear", x))
                else:
                    self.refuse("method `.%s(..)` as a statement" % meth)
                closed = self.end_ustmt()
            elif k == "id" and v not in KEYWORDS and self.peek(1)[1] == "(":
                f = self.name(); self.take("(")
                args = []
                while not self.at(")"):
                    if self.at("&"):
                        self.take()
                        if self.at("mut"):
                            self.take(); args.append(("mutref", self.name()))
                        else:
                            args.append(("ref", self.name()))
                        if not (self.at(",") or self.at(")")):
                            self.refuse("a reference to something other than a plain name")
                    else:
                        args.append(("val", self.expr()))
                    if self.at(","):
                        self.take()
                    elif not self.at(")"):
                        self.refuse("call arguments")
                self.take(")")
                stmts.append(("call", f, args))
                closed = self.end_ustmt()
            else:
                self.refuse("statement starting with %r" % v)
        self.take("}")
        return stmts

    def end_ustmt(self):
        """after a unit-valued statement: `;`, or the end of the block (then it is the block's unit value)"""
        if self.at(";"):
            self.take()
            return False
        if self.at("}"):
            return True
        self.refuse("expected `;` or `}` after a statement, found %r" % self.peek()[1])

    def if_(self):
        self.take("if")
        if self.peek() == ("id", "let"):
            self.refuse("`if let`")
        c = self.expr()
        b1 = self.block()
        b2 = None
        if self.peek() == ("id", "else"):
            self.take()
            b2 = [self.if_()] if self.peek() == ("id", "if") else self.block()
        return ("if", c, b1, b2)

    def rhs(self):
        if self.at("Vec", "::"):
            self.take(); self.take(); f = self.take(kind="id")
            if self.at("::") or self.at("<"):
                self.refuse("turbofish")
            self.take("(")
            if f == "new":
                self.take(")")
                return ("vecnew",)
            if f == "with_capacity":
                cap = self.expr(); self.take(")")
                return ("veccap", cap)
            if f == "from":
                if self.at("&"):
                    self.refuse("Vec::from of a reference expression")
                x = self.name(); self.take(")")
                return ("vecfrom", x)
            self.refuse("constructor Vec::%s" % f)
        return ("expr", self.expr())

    def fn(self):
        self.take("fn")
        name = self.name()
        if self.at("<"):
            self.refuse("generic fn")
        self.take("(")
        params = []
        while not self.at(")"):
            if self.peek()[1] in ("mut", "&", "self"):
                self.refuse("parameter form %r" % self.peek()[1])
            a = self.name(); self.take(":"); params.append((a, self.param_type()))
            if self.at(","):
                self.take()
            elif not self.at(")"):
                self.refuse("parameter list")
        self.take(")")
        if self.at("->"):
            self.refuse("a result type (functions of the subset return nothing)")
        if self.at("where"):
            self.refuse("where clause")
        body = self.block()
        if self.peek()[0] != "eof":
            self.refuse("text after the function body")
        return name, params, body


# ------------------------------------------------------------------ integer types that are fixed by use
class IntVar:
    """the type (i32 or usize) of an integer literal, and of a local initialised by one, until something fixes it"""
    count = 0

    def __init__(self):
        IntVar.count += 1
        self.id, self.link, self.ty = IntVar.count, None, None

    def find(self):
        v = self
        while v.link is not None:
            v = v.link
        return v


def res(ty):
    if isinstance(ty, IntVar):
        r = ty.find()
        return r.ty if r.ty is not None else r
    return ty


def is_int(ty):
    ty = res(ty)
    return ty in ("i32", "usize") or isinstance(ty, IntVar)


def show(ty):
    ty = res(ty)
    return "{integer}" if isinstance(ty, IntVar) else {"slice": "&[(f64, f64)]", "vec": "Vec<(f64, f64)>",
                                                        "mutvec": "&mut Vec<(f64, f64)>"}.get(ty, str(ty))


def coq_ty(ty):
    if ty == "f64":
        return "F"
    if ty == "usize":
        return "nat"
    if ty == "i32":
        return "Z"
    if ty in LISTY:
        return PAIRS
    raise Refuse("no Gallina type for %r" % (ty,))


# ------------------------------------------------------------------ which outer places a block changes / jumps
def contains_jump(block, kinds=("continue", "break")):
    """a `continue`/`break` that belongs to the loop whose body (or a statement-if of whose body) `block` is"""
    for s in block:
        if s[0] in kinds:
            return True
        if s[0] == "if" and (contains_jump(s[2], kinds) or (s[3] is not None and contains_jump(s[3], kinds))):
            return True
    return False


class Fn:
    """translation of one function body; env: name -> [type, mutable, declaration index]"""

    def __init__(self, name, sigs):
        self.name, self.sigs = name, sigs
        self.counter = 0
        self.calls = []
        self.recursive = False
        self.has_while = False
        self.intvars = {}

    def refuse(self, what):
        raise Refuse("fn %s: %s" % (self.name, what))

    def declare(self, env, x, ty, mut):
        if x in env or x in self.sigs:
            self.refuse("`%s` shadows an existing name" % x)
        if x in RESERVED or not re.fullmatch(r"[a-z_][a-z0-9_]*", x) or x == "_" or re.search(r"_(gen|rec)$", x):
            self.refuse("local name `%s` is reserved or not a plain lower-case identifier" % x)
        env = dict(env)
        self.counter += 1
        env[x] = [ty, mut, self.counter]
        return env

    # ---- integer placeholders: "@@<intvar id>:<what>@@", resolved once every type is known
    def hole(self, ty, what):
        ty = res(ty)
        if isinstance(ty, IntVar):
            self.intvars[ty.id] = ty
            return "@@%d:%s@@" % (ty.id, what)
        return self.int_text(ty, what)

    def int_text(self, ty, what):
        m = "Z" if ty == "i32" else "Nat"
        if what.startswith("lit"):
            v = int(what[3:])
            if ty == "i32":
                if v > 2 ** 31 - 1:
                    self.refuse("i32 literal %d out of range" % v)
                return "%d%%Z" % v
            if v > 100000:
                self.refuse("usize literal %d is too large for a unary nat" % v)
            return "%d%%nat" % v
        if what == "sub" and ty == "usize":
            self.refuse("subtraction on usize (underflow panics; nat subtraction truncates)")
        if what == "neg":
            if ty == "usize":
                self.refuse("unary minus on usize")
            return "Z.opp"
        if what == "div":
            return "Z.quot" if ty == "i32" else "Nat.div"
        return "%s.%s" % (m, what)

    def unify(self, a, b, what):
        a, b = res(a), res(b)
        if isinstance(a, IntVar) and isinstance(b, IntVar):
            if a is not b:
                a.link = b
            return b
        if isinstance(a, IntVar):
            a, b = b, a
        if isinstance(b, IntVar):
            if a not in ("i32", "usize"):
                self.refuse("%s: an integer literal where a %s is expected" % (what, show(a)))
            b.ty = a
            return a
        if a != b:
            self.refuse("%s: %s and %s" % (what, show(a), show(b)))
        return a

    def resolve_holes(self, text):
        def sub(m):
            v = self.intvars[int(m.group(1))].find()
            if v.ty is None:
                self.refuse("the type (i32 or usize) of an integer literal is not determined by its uses")
            return self.int_text(v.ty, m.group(2))
        return re.sub(r"@@(\d+):([a-z0-9]+)@@", sub, text)

    # ---- expressions: returns (text, type); `want` types an integer literal
    def ex(self, e, env, want=None):
        k = e[0]
        if k == "paren":
            return self.ex(e[1], env, want)
        if k == "float":
            t = e[1].replace("_", "")
            if t.endswith("f64"):
                t = t[:-3]
            if re.fullmatch(r"0+\.0+", t):
                return "(zero N)", "f64"
            if re.fullmatch(r"0*1\.0+", t):
                return "(one N)", "f64"
            return float_lit(t), "f64"
        if k == "int":
            ty = res(want) if want is not None and is_int(want) else IntVar()
            return self.hole(ty, "lit" + e[1]), ty
        if k == "var":
            x = e[1]
            if x in env:
                return x, res(env[x][0])
            self.refuse("unknown name `%s`" % x)
        if k == "len":
            x = e[1]
            if x not in env or res(env[x][0]) not in LISTY:
                self.refuse("`.len()` on `%s`, which is not a slice or Vec" % x)
            return "(length %s)" % x, "usize"
        if k == "neg":
            a, ta = self.ex(e[1], env, want)
            if res(ta) == "f64":
                return "(opp N %s)" % a, "f64"
            if is_int(ta):
                return "(%s %s)" % (self.hole(ta, "neg"), a), ta
            self.refuse("unary minus on %s" % show(ta))
        if k == "bin":
            op, l, r = e[1], e[2], e[3]
            if l[0] == "int" and r[0] != "int":
                b, tb = self.ex(r, env, want)
                a, ta = self.ex(l, env, tb)
            else:
                a, ta = self.ex(l, env, want)
                b, tb = self.ex(r, env, ta)
            if res(ta) == "f64" and res(tb) == "f64":
                return "(%s N %s %s)" % ({"+": "add", "-": "sub", "*": "mul", "/": "div"}[op], a, b), "f64"
            if is_int(ta) and is_int(tb):
                ty = self.unify(ta, tb, "`%s`" % op)
                if op == "/":
                    rr = r
                    while rr[0] == "paren":
                        rr = rr[1]
                    if rr[0] != "int" or int(rr[1]) <= 0:
                        self.refuse("integer division by something other than a positive literal")
                what = {"+": "add", "-": "sub", "*": "mul", "/": "div"}[op]
                return "(%s %s %s)" % (self.hole(ty, what), a, b), ty
            self.refuse("`%s` on %s and %s" % (op, show(ta), show(tb)))
        if k == "cmp":
            op, l, r = e[1], e[2], e[3]
            if l[0] == "int" and r[0] != "int":
                b, tb = self.ex(r, env)
                a, ta = self.ex(l, env, tb)
            else:
                a, ta = self.ex(l, env)
                b, tb = self.ex(r, env, ta)
            if res(ta) == "f64" and res(tb) == "f64":
                pre = lambda f, x, y: "(%s N %s %s)" % (f, x, y)
            elif is_int(ta) and is_int(tb):
                ty = self.unify(ta, tb, "comparison `%s`" % op)
                pre = lambda f, x, y: "(%s %s %s)" % (self.hole(ty, f), x, y)
            else:
                self.refuse("comparison `%s` of %s and %s" % (op, show(ta), show(tb)))
            txt = {"==": pre("eqb", a, b), "!=": "(negb %s)" % pre("eqb", a, b),
                   "<": pre("ltb", a, b), "<=": pre("leb", a, b),
                   ">": pre("ltb", b, a), ">=": pre("leb", b, a)}[op]
            return txt, "bool"
        self.refuse("expression form %r" % k)

    def cond(self, e, env, what):
        c, tc = self.ex(e, env)
        if tc != "bool":
            self.refuse("`%s` on a %s" % (what, show(tc)))
        return strip(c)

    @staticmethod
    def tup(names):
        return names[0] if len(names) == 1 else "(" + ", ".join(names) + ")"

    @staticmethod
    def pat(names):                      # binder
        return names[0] if len(names) == 1 else "'(" + ", ".join(names) + ")"

    # ---- the outer places a block assigns
    def assigned(self, block, env, acc):
        def add(x):
            if x not in acc:
                acc.append(x)
        for s in block:
            if s[0] in ("asg", "push", "extend", "clear"):
                add(s[1])
            elif s[0] == "call":
                f, args = s[1], s[2]
                if f == "swap":
                    for a in args:
                        if a[0] == "mutref":
                            add(a[1])
                        elif a[0] == "val" and a[1][0] == "var":
                            add(a[1][1])
                else:
                    for a in args:
                        if a[0] == "mutref":
                            add(a[1])
                        elif a[0] == "val" and a[1][0] == "var" and a[1][1] in env and res(env[a[1][1]][0]) == "mutvec":
                            add(a[1][1])
            elif s[0] == "if":
                self.assigned(s[2], env, acc)
                if s[3] is not None:
                    self.assigned(s[3], env, acc)
            elif s[0] in ("foreach", "while"):
                self.assigned(s[-1], env, acc)
        return acc

    def mods(self, blocks, env, what):
        names = []
        for b in blocks:
            if b is not None:
                self.assigned(b, env, names)
        names = [x for x in names if x in env]       # locals of the branch/body itself are not state
        for x in names:
            if not env[x][1]:
                self.refuse("%s assigns `%s`, which is not mutable" % (what, x))
        return sorted(names, key=lambda x: env[x][2])

    def mut_place(self, arg, env, what):
        """`&mut x` (x a mutable local) or `x` (x a `&mut` parameter) -> x"""
        if arg[0] == "mutref":
            x = arg[1]
            if x not in env:
                self.refuse("%s: unknown name `%s`" % (what, x))
            if res(env[x][0]) == "mutvec":
                self.refuse("%s: `&mut %s` of a `&mut` parameter" % (what, x))
            if not env[x][1]:
                self.refuse("%s: `&mut %s` of a place that is not `mut`" % (what, x))
            return x
        if arg[0] == "val" and arg[1][0] == "var":
            x = arg[1][1]
            if x not in env:
                self.refuse("%s: unknown name `%s`" % (what, x))
            if res(env[x][0]) != "mutvec":
                self.refuse("%s: `%s` is not a `&mut` parameter (write `&mut %s`)" % (what, x, x))
            return x
        self.refuse("%s: argument is not a mutable place" % what)

    # ---- statements.  k(env) gives the text that follows normal completion; jumps: None (not allowed here) or
    #      {"continue": text-maker, "break": text-maker or None}
    def stmts(self, ss, env, k, jumps):
        if not ss:
            return k(env)
        s, rest = ss[0], ss[1:]
        kind = s[0]
        again = lambda env2: self.stmts(rest, env2, k, jumps)
        if kind == "let":
            _, mut, x, ty, rhs = s
            if rhs[0] in ("vecnew", "veccap", "vecfrom"):
                if ty not in (None, "vec"):
                    self.refuse("let %s: declared %s, constructed a Vec" % (x, ty))
                if rhs[0] == "veccap":
                    _, tc = self.ex(rhs[1], env, "usize")
                    if is_int(tc):
                        self.unify(tc, "usize", "Vec::with_capacity")
                    else:
                        self.refuse("Vec::with_capacity(%s)" % show(tc))
                    txt = "(@nil (F * F))"
                elif rhs[0] == "vecnew":
                    txt = "(@nil (F * F))"
                else:
                    y = rhs[1]
                    if y not in env or res(env[y][0]) != "slice":
                        self.refuse("Vec::from(%s): not a slice parameter" % y)
                    txt = y
                env2 = self.declare(env, x, "vec", mut)
                return "let %s := %s in\n%s" % (x, txt, again(env2))
            t, te = self.ex(rhs[1], env, ty if ty in ("usize", "i32") else None)
            if ty == "vec":
                self.refuse("let %s: declared Vec, initialised by an expression" % x)
            if ty is not None:
                te = self.unify(ty, te, "let %s" % x)
            if not (res(te) == "f64" or is_int(te)):
                self.refuse("let %s of type %s (locals are f64, i32, usize or Vec<(f64, f64)>)" % (x, show(te)))
            env2 = self.declare(env, x, te, mut)
            return "let %s := %s in\n%s" % (x, strip(t), again(env2))
        if kind == "asg":
            _, x, op, e = s
            if x not in env:
                self.refuse("assignment to unknown `%s`" % x)
            tx = res(env[x][0])
            if not env[x][1] or not (tx == "f64" or is_int(tx)):
                self.refuse("assignment to `%s` (not a `mut` f64/i32/usize local)" % x)
            if op == "=":
                t, te = self.ex(e, env, tx)
                if tx == "f64" and res(te) == "f64":
                    pass
                elif is_int(tx) and is_int(te):
                    self.unify(tx, te, "`%s = ..`" % x)
                else:
                    self.refuse("`%s = ..` with a %s" % (x, show(te)))
                return "let %s := %s in\n%s" % (x, strip(t), again(env))
            t, _ = self.ex(("bin", op[0], ("var", x), e), env)
            return "let %s := %s in\n%s" % (x, strip(t), again(env))
        if kind == "push":
            _, x, e1, e2 = s
            self.vec_place(x, env, "push")
            t1, ty1 = self.ex(e1, env)
            t2, ty2 = self.ex(e2, env)
            if res(ty1) != "f64" or res(ty2) != "f64":
                self.refuse("push of a (%s, %s) on a Vec<(f64, f64)>" % (show(ty1), show(ty2)))
            return "let %s := %s ++ [(%s, %s)] in\n%s" % (x, x, strip(t1), strip(t2), again(env))
        if kind == "extend":
            _, x, y, ref = s
            self.vec_place(x, env, "extend_from_slice")
            if y not in env or y == x:
                self.refuse("extend_from_slice(%s)" % y)
            ty = res(env[y][0])
            if (ref and ty != "vec") or (not ref and ty != "slice"):
                self.refuse("extend_from_slice argument `%s%s` of type %s (a slice parameter, or `&` a Vec local)" % ("&" if ref else "", y, show(ty)))
            return "let %s := %s ++ %s in\n%s" % (x, x, y, again(env))
        if kind == "clear":
            x = s[1]
            self.vec_place(x, env, "clear")
            return "let %s := (@nil (F * F)) in\n%s" % (x, again(env))
        if kind == "call" and s[1] == "swap":
            if not self.sigs.get("swap") == "std::mem::swap":
                self.refuse("`swap` is not imported by `use std::mem::swap;`")
            if len(s[2]) != 2:
                self.refuse("swap with %d arguments" % len(s[2]))
            a = self.mut_place(s[2][0], env, "swap")
            b = self.mut_place(s[2][1], env, "swap")
            if a == b:
                self.refuse("swap of `%s` with itself" % a)
            ta, tb = res(env[a][0]), res(env[b][0])
            if not ((ta in ("vec", "mutvec") and tb in ("vec", "mutvec")) or (ta == "f64" and tb == "f64")
                    or (is_int(ta) and is_int(tb))):
                self.refuse("swap of a %s and a %s" % (show(ta), show(tb)))
            if is_int(ta):
                self.unify(ta, tb, "swap")
            return "let '(%s, %s) := (%s, %s) in\n%s" % (a, b, b, a, again(env))
        if kind == "call":
            _, f, args = s
            if f not in self.sigs or f in env or f == "swap":
                self.refuse("call of unknown function `%s`" % f)
            ptys = self.sigs[f]
            if len(ptys) != len(args):
                self.refuse("call of %s with %d arguments" % (f, len(args)))
            texts, outs, reads = [], [], []
            for a, pt in zip(args, ptys):
                what = "argument of %s" % f
                if pt == "mutvec":
                    x = self.mut_place(a, env, what)
                    if res(env[x][0]) not in ("vec", "mutvec"):
                        self.refuse("%s: `%s` is a %s" % (what, x, show(env[x][0])))
                    if x in outs:
                        self.refuse("%s: `%s` passed as two `&mut` arguments" % (what, x))
                    outs.append(x); texts.append(x)
                elif pt == "slice":
                    if a[0] == "ref" and a[1] in env and res(env[a[1]][0]) == "vec":
                        x = a[1]
                    elif a[0] == "val" and a[1][0] == "var" and a[1][1] in env and res(env[a[1][1]][0]) == "slice":
                        x = a[1][1]
                    else:
                        self.refuse("%s: a slice is expected (a slice parameter `s`, or `&v` for a Vec local v)" % what)
                    reads.append(x); texts.append(x)
                else:
                    if a[0] != "val":
                        self.refuse("%s: a reference where a %s is expected" % (what, pt))
                    t, te = self.ex(a[1], env, pt if pt in ("usize", "i32") else None)
                    if is_int(te) and pt in ("i32", "usize"):
                        self.unify(te, pt, what)
                    elif res(te) != pt:
                        self.refuse("%s has type %s, parameter has %s" % (what, show(te), pt))
                    texts.append(t)
            if not outs:
                self.refuse("call of %s, which has no `&mut` parameter: no effect" % f)
            for x in outs:
                if x in reads:
                    self.refuse("call of %s: `%s` is passed both by `&` and by `&mut`" % (f, x))
            if f == self.name:
                self.recursive = True
                head = "%s_rec" % f
            else:
                if f not in self.calls:
                    self.calls.append(f)
                head = "%s_gen N" % f
            lhs = outs[0] if len(outs) == 1 else "'(%s)" % ", ".join(outs)
            return "let %s := %s %s in\n%s" % (lhs, head, " ".join(texts), again(env))
        if kind in ("continue", "break"):
            if jumps is None:
                self.refuse("`%s` inside a `while`, or outside any `for`" % kind)
            if rest:
                self.refuse("statements after `%s`" % kind)
            return jumps[kind]()
        if kind == "if":
            _, c, b1, b2 = s
            ct = self.cond(c, env, "if")
            if contains_jump(b1) or (b2 is not None and contains_jump(b2)):
                if jumps is None:
                    self.refuse("`continue`/`break` inside a `while`, or outside any `for`")
                # the code after the `if` runs only after a branch that completes: it continues inside that branch
                # (that branch's own locals go out of scope first: Rust scoping, and names are never shadowed)
                after = lambda _env: again(env)
                t1 = self.stmts(b1, env, after, jumps)
                t2 = self.stmts(b2, env, after, jumps) if b2 is not None else again(env)
                return "if %s then\n%s\nelse\n%s" % (ct, ind(t1), t2)
            xs = self.mods([b1, b2], env, "an `if`")
            if not xs:
                self.refuse("an `if` statement that assigns no outer place")
            fin = lambda _env: self.tup(xs)
            t1 = self.stmts(b1, env, fin, None)
            t2 = self.stmts(b2, env, fin, None) if b2 is not None else self.tup(xs)
            return "let %s :=\n  (if %s then\n%s\n   else\n%s) in\n%s" % (self.pat(xs), ct, ind(t1, 5), ind(t2, 5), again(env))
        if kind == "foreach":
            _, a, b, src, body = s
            if src not in env or res(env[src][0]) not in LISTY:
                self.refuse("`for` over `%s`, which is not a slice or Vec of pairs" % src)
            xs = self.mods([body], env, "a loop")
            if not xs:
                self.refuse("a loop that assigns no outer place")
            if src in xs:
                self.refuse("a loop over `%s` that also changes it" % src)
            if a == b:
                self.refuse("pattern (%s, %s)" % (a, b))
            benv = self.declare(self.declare(env, a, "f64", False), b, "f64", False)
            state = self.tup(xs)
            if contains_jump(body, ("break",)):
                bt = self.stmts(body, benv, lambda _e: "inl %s" % state,
                                {"continue": lambda: "inl %s" % state, "break": lambda: "inr %s" % state})
                comb = "for_each_brk"
            else:
                bt = self.stmts(body, benv, lambda _e: state, {"continue": lambda: state})
                comb = "for_each"
            return "let %s :=\n  %s %s (fun '(%s, %s) %s =>\n%s\n  ) %s in\n%s" % (
                self.pat(xs), comb, src, a, b, self.pat(xs), ind(bt, 4), state, again(env))
        if kind == "while":
            _, c, body = s
            xs = self.mods([body], env, "a loop")
            if not xs:
                self.refuse("a loop that assigns no outer place")
            ct = self.cond(c, env, "while")
            bt = self.stmts(body, env, lambda _e: self.tup(xs), None)
            self.has_while = True
            return "let %s :=\n  while_fuel wfuel (fun %s => %s) (fun %s =>\n%s\n  ) %s in\n%s" % (
                self.pat(xs), self.pat(xs), ct, self.pat(xs), ind(bt, 4), self.tup(xs), again(env))
        self.refuse("statement form %r" % kind)

    def vec_place(self, x, env, what):
        if x not in env or res(env[x][0]) not in ("vec", "mutvec") or not env[x][1]:
            self.refuse("%s on `%s` (not a `mut` Vec local or a `&mut Vec` parameter)" % (what, x))


def translate():
    path = os.path.join(REPO, SRC)
    src = open(path, encoding="utf-8").read()
    src = blank_comments(src.split("#[cfg(test)]")[0])
    if re.search(r"\bmacro_rules\b", src):
        raise Refuse("macro_rules! in %s" % SRC)
    sigs = {}
    swaps = re.findall(r"(?m)^use\s+std::mem::swap\s*;", src)
    other_swap = re.search(r"\b(fn|struct|type|mod|const|static|macro)\s+swap\b|\bas\s+swap\b|use\s+(?!std::mem::swap\s*;)[^;]*\bswap\b[^;]*;", src)
    if other_swap:
        raise Refuse("`swap` is (also) bound by `%s`" % other_swap.group(0).strip())
    if len(swaps) == 1:
        sigs["swap"] = "std::mem::swap"
    parsed = []
    for name in WANTED:
        got, params, body = Parser(fn_tokens(src, name), name).fn()
        assert got == name
        parsed.append((name, params, body))
        sigs[name] = [ty for _, ty in params]
    done = {}
    for name, params, body in parsed:
        fn = Fn(name, sigs)
        env = {}
        for a, ty in params:
            env = fn.declare(env, a, ty, ty == "mutvec")
        outs = [a for a, ty in params if ty == "mutvec"]
        if not outs:
            raise Refuse("fn %s has no `&mut` parameter: nothing to return" % name)
        text = fn.stmts(body, env, lambda _e: Fn.tup(outs), None)
        text = fn.resolve_holes(text)
        rty = PAIRS if len(outs) == 1 else "(" + " * ".join([PAIRS] * len(outs)) + ")"
        ps = " ".join("(%s : %s)" % (a, coq_ty(ty)) for a, ty in params)
        names = " ".join(a for a, _ in params)
        fuels = (["wfuel"] if fn.has_while else []) + (["rfuel"] if fn.recursive else [])
        defs = []
        if not fuels:
            defs.append("Definition %s_gen {F : Type} (N : Num F) %s : %s :=\n%s." % (name, ps, rty, ind(text)))
        else:
            wf = "(wfuel : nat) " if fn.has_while else ""
            wa = "wfuel " if fn.has_while else ""
            if fn.recursive:
                rec_ty = " -> ".join([coq_ty(ty) for _, ty in params] + [rty])
                defs.append("Definition %s_body_gen {F : Type} (N : Num F) %s(%s_rec : %s) %s : %s :=\n%s." % (
                    name, wf, name, rec_ty, ps, rty, ind(text)))
                defs.append("Fixpoint %s_fuel_gen {F : Type} (N : Num F) %s(rfuel : nat) %s {struct rfuel} : %s :=\n"
                            "  match rfuel with\n  | O => %s\n  | S rfuel' => %s_body_gen N %s(%s_fuel_gen N %srfuel') %s\n  end." % (
                                name, wf, ps, rty, Fn.tup(outs), name, wa, name, wa, names))
            else:
                defs.append("Definition %s_fuel_gen {F : Type} (N : Num F) %s%s : %s :=\n%s." % (name, wf, ps, rty, ind(text)))
            defs.append("Definition %s_gen {F : Type} (N : Num F) %s : %s :=\n  %s_fuel_gen N %s %s." % (
                name, ps, rty, name, " ".join(["%d%%nat" % FUEL] * len(fuels)), names))
        done[name] = (fn.calls, "\n\n".join(defs))
    order, state = [], {}

    def visit(n):
        if state.get(n) == 1:
            raise Refuse("mutually recursive calls through %s" % n)
        if state.get(n) == 2:
            return
        state[n] = 1
        for c in done[n][0]:
            visit(c)
        state[n] = 2
        order.append(n)
    for n in WANTED:
        visit(n)
    out = ["(* GENERATED by tools/gen_conv.py from %s (fn %s) -- do not edit *)" % (SRC, ", ".join(WANTED)),
           "From Coq Require Import ZArith List Bool.", "From CE Require Import Num ImpW.",
           "Import ListNotations.", "Local Open Scope list_scope.", ""]
    for n in order:
        out.append(done[n][1])
        out.append("")
    return "\n".join(out[:-1]) + "\n", order


def main():
    try:
        text, order = translate()
    except (Refuse, OSError) as e:
        print("gen_conv: refused: %s" % e)
        return 3
    old = open(OUT).read() if os.path.exists(OUT) else None
    if old != text:
        open(OUT, "w").write(text)
    print("gen_conv: %d functions (%s)%s" % (len(order), ", ".join(order), "" if old == text else " [rewritten]"))
    import tie_modes
    ties, field, only = tie_modes.flags(sys.argv[1:])
    if ties:
        return check_ties(order, field, only)
    return 0


WANTED = ["convolve_with", "convolve_pow"]


def check_ties(order, field=False, only=None):
    """compile coq/proofs/ConvTie.v block by block (`(* BEGIN TIE f (needs: ..) *) .. (* END TIE f *)`), in strict mode
    or (field=True) in field mode, see tools/tie_modes.py; prints `tie <f>: OK | FAILED (..) | SKIPPED (..)`"""
    import tie_modes
    coq = os.path.dirname(os.path.dirname(OUT))
    if not tie_modes.compile_deps(coq, ["model/TieTac.v", "model/ImpW.v", "gen/ConvGen.v"]):
        return 1
    skipped = {n: "not among the functions the translator emitted" for n in WANTED if n not in order}
    bad = tie_modes.check_blocks(coq, os.path.join(coq, "proofs", "ConvTie.v"), WANTED, skipped, field=field, only=only,
                                 stem="ConvTie")
    return 1 if bad else 0


if __name__ == "__main__":
    sys.exit(main())
