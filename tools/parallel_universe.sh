#!/bin/sh
# Make a private copy of /repo and /verif under $1 (default /tmp/px) so that long seeded runs do not occupy /repo:
#   tools/parallel_universe.sh /tmp/px && cd /tmp/px/verif && VERIF_REPO=/tmp/px/repo python3 tools/run_seeded.py <ids>
# The copy's results (seeded/*/result.json) are copied back by hand; evidence is never taken from a copy.
set -e
D=${1:-/tmp/px}
rm -rf "$D"; mkdir -p "$D"
git clone -q /repo "$D/repo"
rsync -a --exclude harness/target --exclude harness_c/target --exclude harness_c/target_asan --exclude coq/cases --exclude replays /verif/ "$D/verif/"
sed -i "s|path = \"/repo\"|path = \"$D/repo\"|" "$D/verif/harness/Cargo.toml"
sed -i "s|path = \"/repo/bindings/c\"|path = \"$D/repo/bindings/c\"|" "$D/verif/harness_c/Cargo.toml"
sed -i "s|^REPO = \"/repo\"|REPO = \"$D/repo\"|" "$D/verif/tools/run_seeded.py" "$D/verif/tools/run_harmless.py"
echo "universe at $D"
