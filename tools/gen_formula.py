#!/usr/bin/env python3
"""Translate the chemical-formula parser of src/formula.rs (the enums FormulaParserState / FormulaParserError, the struct
FormulaParser and the methods of `impl FormulaParser`) into a SHALLOW embedding in Gallina -> coq/gen/FormulaGen.v.
coq/proofs/FormulaTie.v then proves that the hand-written model coq/model/Formula.v computes exactly what this
translation computes.  State-passing style as in gen_poisson.py / gen_peak.py (Gallina shadowing = the new value); the
result monad, the parser record, strings, slices, integer parsing, table look-ups and composition arithmetic are the
MODEL'S OWN primitives (Str.v, Comp.v, Formula.v) and the combinators of coq/model/ImpS.v: the translation ties the
control structure and the bookkeeping (which offsets are stored where, which error is returned when, what is reset),
not the primitives.

Every unit is translated INDEPENDENTLY: a method, or one arm of a `match <parser>.state` statement, whose body is
outside the subset is skipped (`skipped <unit>: <construct>` on stdout, its name in `formula_gen_skipped`), and so is
everything that needs a skipped unit.  Only a broken FILE STRUCTURE (unbalanced braces, the enums / the struct not of
the expected shape, no `impl FormulaParser`) makes the translator exit with status 3.

  python3 tools/gen_formula.py            regenerate coq/gen/FormulaGen.v (rewritten only when its content changes)
  python3 tools/gen_formula.py --ties     additionally compile coq/proofs/FormulaTie.v block by block (a block = the
                                          lemma of one unit, between `(* BEGIN TIE u (needs: ...) *)` / `(* END TIE u *)`)
                                          and print `tie <u>: OK | FAILED | SKIPPED` for every unit

TRANSLATION
  enum FormulaParserState / FormulaParserError -> the model's `st` / `err` (constructors by NAME); the generated lists
      FormulaParserState_all_gen / FormulaParserError_all_gen (every variant, in source order) are tied to be complete;
      `#[default] V` -> FormulaParserState_default_gen := V
  struct FormulaParser (must have exactly the twelve fields of the model's record `cfg`, usize / i32 / the state enum)
      -> `cfg`; `#[derive(Default)]` -> FormulaParser_default_gen (all 0, the default state)
  &str -> str, char -> char (= N), usize -> nat, i32 -> Z, u16 -> N, the non-negative i32 that `parse::<i32>()` yields -> N
  (injected by Z.of_N where an i32 is wanted), bool -> bool, &Element -> str (its symbol), ElementSpecification ->
  key = (symbol, isotope), ChemicalComposition -> ents, &PeriodicTable -> erased (the oracles O : ImpS.oracles),
  Option<T> -> option, Result<T, ParseIntError> -> option T, Result<T, FormulaParserError> -> fres T.
  A method with `&mut self` takes `self : cfg` and yields (value, self) (just self for a unit method); it yields an
  `fres` when its type is Result<_, FormulaParserError> or its body slices a string / uses `?` / calls such a method,
  and a plain value otherwise.  On an error or a panic the parser state is not part of the result (as in the model).
  * `let [mut] x [: T] = e;`                    -> let x := e in ...      (no shadowing inside a nested block)
  * `<p>.f = e;` `<p>.f += e;` `<p>.f -= e;`    -> let p := set_f p <new value> in ...      (p = self or a parser local)
  * `acc.inc(k, n);` `acc += &g;`               -> let acc := e_inc k n acc in / let acc := e_add acc g in
  * `&g * n` (composition, i32)                 -> e_mul g n
  * `&s[a..b]`, `s[a..b]`                       -> t <- sl s a b ;; ... t           (FPanic where Rust panics)
  * `s.parse::<i32>()` / `::<u16>()`            -> parse_i32 s / parse_u16 s        (option)
  * `e?` on an fres                             -> t <- e ;; ... t ;   `o.ok_or(E)` -> of_opt E o
  * `match o { Ok(v) => a, Err(_) => b }`       -> t <- (match o with Some v => a' | None => b' end) ;; ... t
                                                   where a pure arm `a` is FOk a and an arm `{ return Err(E); }` is FErr E
  * `if c { A } else { B }` as a value          -> t <- (if c then A' else B') ;; ... t
  * `if c { A } [else if ..] [else { B }]`, `match <p>.state { V => {A}, .., [_ => X] }` as statements:
      last in their block                       -> if c then A; K else B; K        (K: what follows the block)
      followed by other statements              -> r <- (if c then A; FOk (xs) else B; FOk (xs)) ;; let '(xs) := r in ...
                                                   (xs: the outer variables A or B assign; without FOk in a plain function)
  * `return Err(E);`                            -> FErr E     (nothing may follow it in its block)
  * `for (i, c) in s.char_indices() { body }`   -> r <- for_chars (char_indices s) (fun '(i, c) '(xs) => body; FOk (xs)) (xs) ;;
                                                   let '(xs) := r in ...
  * `match <p>.state` arms are emitted as separate definitions  <fn>__step_<V>_gen (inside a loop) / <fn>__finish_<V>_gen
    (elsewhere; `_` is `default`), all with the same parameters (O, the recursion parameters, self, the parameters and the
    locals in scope), and a dispatcher <fn>__step_gen / <fn>__finish_gen; an arm that is outside the subset (even one
    whose block does not parse in the grammar below) is skipped alone, with its dispatcher and the function; the other
    arms, and the later units of the function, are still emitted.
  * `Ok(e)` / `Err(E)` / a call yielding the function's own Result type in result position -> FOk .. / FErr E / the call
  * `x.into()` on a composition in a function whose result is the generic `C: From<ChemicalComposition>` -> x (the
    translation is the instance C = ChemicalComposition, which is what every caller in the file asks for)
  * `Self::default()` -> FormulaParser_default_gen ; `ChemicalComposition::default()` -> []
  * `c.is_ascii_alphabetic()` is_alpha, `is_ascii_uppercase` is_upper, `is_ascii_lowercase` is_lower, `is_ascii_digit`
    is_digit, `is_numeric` Formula.is_numeric (uni_numeric O), `is_alphabetic` / `is_uppercase` / `is_lowercase`
    ImpS.char_is_*, `c == '('` N.eqb c 40, `!` negb, `&&` andb, `||` orb (pure operands), `==` `!=` `<` `<=` `>` `>=` on
    usize / i32 / u16 by Nat / Z / N tests, `s.len()` blen s, `<usize> + <literal>` Nat.add (a byte offset of a string
    plus a literal cannot overflow), i32 `+` `-` on Z (the source's paren_stack counts parentheses of the string: no
    overflow below 2^31 bytes), `periodic_table.get(s)` tbl_get O s, `elt.isotopes.contains_key(&n)` has_iso O elt n,
    `ElementSpecification { element: e, isotope: n }` (e, n).
  * recursion: a call of a method that is being translated (`Self::parse_with_table` inside
    parse_formula_with_table_generic) becomes a call of a parameter `rec_<method>`; the method that closes the cycle is
    emitted as <m>_body_gen (with that parameter) and `Fixpoint <m>_gen O (fuel : nat) ...` (fuel 0: FPanic, as the
    model's `parse`); a function outside the cycle that reaches it takes a `fuel` as well.

GRAMMAR of a method (comments removed; lifetimes and `pub` ignored)
  method  := 'fn' name ['<' generics '>'] '(' [selfp ','] param,* ')' ['->' type] block
  selfp   := '&' 'mut' 'self'          param := name ':' type
  type    := '&' 'str' | 'char' | 'usize' | 'i32' | 'u16' | 'bool' | '&' 'Element' | '&' 'PeriodicTable'
           | 'ChemicalComposition' | <the generic C: From<ChemicalComposition>> | 'Self' | 'FormulaParser'
           | 'Result' '<' type ',' ('FormulaParserError' | 'ParseIntError') '>'
  block   := '{' stmt* [expr] '}'
  stmt    := 'let' ['mut'] name [':' type] '=' expr ';'
           | place ('=' | '+=' | '-=') expr ';'              place := name | name '.' field
           | expr ';'                                        (acc.inc(..), a unit method call)
           | 'if' expr block ('else' 'if' expr block)* ['else' block]
           | 'match' expr '{' (pat '=>' (block [','] | expr ',' | 'return' expr ','))* '}'
           | 'return' expr ';'
           | 'for' '(' name ',' name ')' 'in' expr block
  pat     := path | '_' | ('Ok' | 'Err') '(' (name | '_') ')'
  expr    := and ('||' and)*     and := cmp ('&&' cmp)*     cmp := arith [('=='|'!='|'<'|'<='|'>'|'>=') arith]
  arith   := term (('+'|'-') term)*     term := unary ('*' unary)*
  unary   := ('!' | '-' | '&' | '*') unary | postfix
  postfix := primary ('.' name ['::' '<' type '>'] ['(' args ')'] | '[' arith '..' arith ']' | '?')*
  primary := int | char | 'true' | 'false' | name | 'self' | '(' expr ')' | path | path '(' args ')' | name '(' args ')'
           | 'ElementSpecification' '{' (name ':' expr),* '}' | 'if' .. | 'match' ..
Typing is checked.  Everything else is refused (the unit is skipped)."""
import os, re, subprocess, sys, tempfile
sys.path.insert(0, os.path.dirname(os.path.abspath(__file__)))
from gen_src import Refuse
from gen_poisson import ind, balanced


def strip(t):
    """drop redundant outer parentheses (not those of a tuple)"""
    if t.startswith("(") and t.endswith(")") and balanced(t[1:-1]):
        depth = 0
        for ch in t[1:-1]:
            depth += ch == "("
            depth -= ch == ")"
            if ch == "," and depth == 0:
                return t
        return t[1:-1]
    return t


def atom(t):
    if re.fullmatch(r"[A-Za-z_][A-Za-z0-9_']*|\d+", t) or (t.startswith("(") and t.endswith(")") and balanced(t[1:-1])):
        return t
    return "(%s)" % t

REPO = os.environ.get("VERIF_REPO", "/repo")
COQ = os.path.join(os.path.dirname(os.path.dirname(os.path.abspath(__file__))), "coq")
OUT = os.path.join(COQ, "gen", "FormulaGen.v")
TIE = os.path.join(COQ, "proofs", "FormulaTie.v")

PARSER, STATE, ERROR = "FormulaParser", "FormulaParserState", "FormulaParserError"
MAIN = "parse_formula_with_table_generic"
# source field -> (model accessor, model setter, type)
FIELDS = {"element_start": ("es", "set_es", "usize"), "element_end": ("ee", "set_ee", "usize"),
          "isotope_start": ("is_", "set_is", "usize"), "isotope_end": ("ie", "set_ie", "usize"),
          "count_start": ("cs", "set_cs", "usize"), "count_end": ("ce", "set_ce", "usize"),
          "paren_stack": ("pstack", "set_ps", "i32"),
          "group_start": ("gs", "set_gs", "usize"), "group_end": ("ge", "set_ge", "usize"),
          "group_count_start": ("gcs", "set_gcs", "usize"), "group_count_end": ("gce", "set_gce", "usize"),
          "state": ("fstate", "set_st", "state")}
MODEL_STATES = ["New", "Element", "Isotope", "IsotopeToCount", "Count", "Group", "GroupToGroupCount", "GroupCount"]
MODEL_ERRORS = ["InvalidStart", "ElementCountMalformed", "IsotopeCountMalformed", "GroupCountMalformed", "IncompleteFormula",
                "InvalidElement"]
METHODS = ["parse_element_from_string", "check_isotope", "parse_element_count", "parse_group_count", "handle_group_state",
           MAIN, "parse_with_table", "parse"]
EXTRA_BLOCKS = ["entry"]            # blocks of FormulaTie.v that are corollaries, not units of the translation
FREE = ["parse_formula", "parse_formula_with_table"]        # free functions of the file, translated like static methods

RESERVED = set("""O oracles fres FOk FErr FPanic bind sl of_opt slice blen indices char_indices for_chars fres_map tbl_get
 has_elem has_iso uni_numeric uni_alphabetic uni_uppercase uni_lowercase is_numeric is_alpha is_upper is_lower is_digit
 char_is_alphabetic char_is_uppercase char_is_lowercase parse_i32 parse_u16 parse_uint e_inc e_add e_mul e_sub e_get e_set
 ents key cfg cfg0 st err es ee is_ ie cs ce pstack gs ge gcs gce fstate set_es set_ee set_is set_ie set_cs set_ce set_ps
 set_gs set_ge set_gcs set_gce set_st str char nat Z N bool list option Some None true false negb andb orb Nat fst snd
 nil cons app pair fuel S fun let in if then else match with end forall exists fix cofix as at return Type Prop Set where
 struct using Definition Fixpoint Section Context End LP RP LB RB step finish run parse parse_formula get_elem check_iso
 take_count take_group take_gcount start_item parse_isotope_slice""".split()) | set(MODEL_STATES) | set(MODEL_ERRORS)


class Structure(Exception):
    """the file does not have the shape the translator relies on: exit 3"""


class NeedMonad(Exception):
    """a plain (non-fres) translation met an effect: translate the function again as an fres"""


# ------------------------------------------------------------------ tokens
TOK = re.compile(r"""\s*(?:
   (//[^\n]*|/\*.*?\*/)
  |'(\\.|[^'\\])'
  |('[A-Za-z_][A-Za-z0-9_]*)
  |(\d[\d_]*(?:\.\d[\d_]*)?[A-Za-z0-9_]*)
  |([A-Za-z_][A-Za-z0-9_]*)
  |("(?:\\.|[^"\\])*")
  |(->|=>|\.\.=|\.\.|::|==|!=|<=|>=|&&|\|\||\+=|-=|\*=|/=|%=|[-+*/%()=;:,.{}<>&!\[\]\#|?^@$~])
 )""", re.S | re.X)
ESC = {"n": 10, "r": 13, "t": 9, "0": 0, "\\": 92, "'": 39, '"': 34}


def tokens(src):
    pos, out = 0, []
    while pos < len(src):
        if src[pos:].strip() == "":
            break
        m = TOK.match(src, pos)
        if not m:
            raise Structure("cannot tokenize at: %r" % src[pos:pos + 30])
        pos = m.end()
        if m.group(1):
            continue
        if m.group(2) is not None:
            t = m.group(2)
            if t.startswith("\\"):
                if t[1:] not in ESC:
                    raise Structure("char literal '%s'" % t)
                code = ESC[t[1:]]
            else:
                code = ord(t)
            out.append(("char", str(code)))
        elif m.group(3):
            out.append(("life", m.group(3)))
        elif m.group(4):
            out.append(("int" if re.fullmatch(r"[\d_]+", m.group(4)) else "num", m.group(4)))
        elif m.group(5):
            out.append(("id", m.group(5)))
        elif m.group(6):
            out.append(("strlit", '""'))
        else:
            out.append(("op", m.group(7)))
    return out


def vals(toks):
    return [v for _, v in toks]


def split_items(toks, what):
    """top-level items of a token list: (attribute token lists, header tokens, body tokens or None)"""
    items, i, n, attrs = [], 0, len(toks), []
    while i < n:
        if toks[i] == ("op", "#"):
            j = i + 1
            if j < n and toks[j][1] == "!":
                j += 1
            if j >= n or toks[j][1] != "[":
                raise Structure("%s: stray `#`" % what)
            depth, k = 0, j
            while k < n:
                depth += toks[k] == ("op", "[")
                depth -= toks[k] == ("op", "]")
                k += 1
                if depth == 0:
                    break
            if depth:
                raise Structure("%s: unterminated attribute" % what)
            attrs.append(vals(toks[j + 1:k - 1]))
            i = k
            continue
        head, depth, j, body = [], 0, i, None
        while True:
            if j >= n:
                raise Structure("%s: item `%s ...` does not end" % (what, " ".join(vals(toks[i:i + 4]))))
            t = toks[j]
            if t in (("op", "("), ("op", "[")):
                depth += 1
            elif t in (("op", ")"), ("op", "]")):
                depth -= 1
                if depth < 0:
                    raise Structure("%s: unbalanced `%s`" % (what, t[1]))
            elif t == ("op", "}"):
                raise Structure("%s: unbalanced `}`" % what)
            elif t == ("op", ";") and depth == 0:
                j += 1
                break
            elif t == ("op", "{") and depth == 0:
                d, k = 0, j
                while k < n:
                    d += toks[k] == ("op", "{")
                    d -= toks[k] == ("op", "}")
                    k += 1
                    if d == 0:
                        break
                if d:
                    raise Structure("%s: unbalanced `{`" % what)
                body = toks[j + 1:k - 1]
                j = k
                break
            head.append(t)
            j += 1
        items.append((attrs, head, body))
        attrs = []
        i = j
    return items


def enum_variants(body, name):
    """-> (variants in order, the #[default] one or None)"""
    out, default, i, n, pending = [], None, 0, len(body), False
    while i < n:
        if body[i] == ("op", "#"):
            if vals(body[i + 1:i + 4]) != ["[", "default", "]"]:
                raise Structure("enum %s: attribute other than #[default]" % name)
            pending = True
            i += 4
            continue
        if body[i][0] != "id":
            raise Structure("enum %s: unexpected `%s`" % (name, body[i][1]))
        v = body[i][1]
        i += 1
        if i < n and body[i] != ("op", ","):
            raise Structure("enum %s: variant %s is not a plain name" % (name, v))
        i += 1
        if v in out:
            raise Structure("enum %s: variant %s twice" % (name, v))
        out.append(v)
        if pending:
            if default is not None:
                raise Structure("enum %s: two #[default]" % name)
            default, pending = v, False
    return out, default


def file_structure(src):
    src = src.split("#[cfg(test)]")[0]
    toks = tokens(src)
    info = {"methods": {}, "order": [], "free": {}}
    for attrs, head, body in split_items(toks, "formula.rs"):
        hv = [v for k, v in head if k != "life"]
        if hv[:1] == ["pub"]:
            hv = hv[1:]
        derives = [a for at in attrs if at[:1] == ["derive"] for a in at if a not in ("derive", "(", ")", ",")]
        if hv[:2] == ["enum", STATE] and body is not None:
            info["states"], info["state_default"] = enum_variants(body, STATE)
            info["state_derive_default"] = "Default" in derives
        elif hv[:2] == ["enum", ERROR] and body is not None:
            info["errors"], d = enum_variants(body, ERROR)
        elif hv[:2] == ["struct", PARSER] and body is not None:
            fields = {}
            for part in " ".join(v for k, v in body if k != "life").split(","):
                part = part.strip()
                if part:
                    m = re.fullmatch(r"(?:pub )?(\w+) : (\w+)", part)
                    if not m or m.group(1) in fields:
                        raise Structure("struct %s: field `%s`" % (PARSER, part))
                    fields[m.group(1)] = m.group(2)
            info["fields"] = fields
            info["parser_derive_default"] = "Default" in derives
        elif hv[:1] == ["impl"] and body is not None and "for" not in hv and hv[-1] == PARSER:
            for a2, h2, b2 in split_items(body, "impl " + PARSER):
                h2 = [t for t in h2 if t != ("id", "pub")]
                if vals(h2[:1]) == ["fn"] and b2 is not None:
                    name = h2[1][1]
                    if name in info["methods"]:
                        raise Structure("method %s defined twice" % name)
                    info["methods"][name] = (h2, b2)
                    info["order"].append(name)
        elif hv[:1] == ["fn"] and body is not None:
            info["free"][hv[1]] = ([t for t in head if t != ("id", "pub")], body)
    for what in ("states", "errors", "fields"):
        if what not in info:
            raise Structure("no %s" % {"states": "enum " + STATE, "errors": "enum " + ERROR, "fields": "struct " + PARSER}[what])
    want = {f: {"usize": "usize", "i32": "i32", "state": STATE}[t] for f, (_, _, t) in FIELDS.items()}
    if info["fields"] != want:
        raise Structure("struct %s has fields %r, the model's record has %r" % (PARSER, info["fields"], want))
    if not info["methods"]:
        raise Structure("no `impl %s` block" % PARSER)
    for name in FREE:
        if name in info["free"] and name not in info["methods"]:
            info["methods"][name] = info["free"][name]
            info["order"].append(name)
    return info


# ------------------------------------------------------------------ parsing a method to an AST (tuples)
CMP = ("==", "!=", "<", "<=", ">", ">=")
KEYWORDS = ("loop", "while", "unsafe", "move", "break", "continue", "let", "mut", "as", "fn", "else", "in", "impl", "struct",
            "for", "return")


class Parser:
    def __init__(self, toks):
        self.t, self.i = [t for t in toks if t[0] != "life"], 0

    def peek(self, k=0):
        return self.t[self.i + k] if self.i + k < len(self.t) else ("eof", "<end>")

    def at(self, *vs):
        return all(self.peek(k)[1] == v and self.peek(k)[0] not in ("eof", "char", "strlit") for k, v in enumerate(vs))

    def context(self):
        return " ".join(v for _, v in self.t[max(0, self.i - 4):self.i + 6])

    def take(self, val=None, kind=None):
        k, v = self.peek()
        if (val is not None and (v != val or k in ("eof", "char", "strlit"))) or (kind is not None and k != kind):
            raise Refuse("expected %s, found %r near `%s`" % (val or kind, v, self.context()))
        self.i += 1
        return v

    def end(self):
        if self.peek()[0] != "eof":
            raise Refuse("unexpected %r near `%s`" % (self.peek()[1], self.context()))

    # ---- types
    def type_(self, generics):
        if self.at("&"):
            self.take()
            if self.at("mut"):
                raise Refuse("`&mut` type near `%s`" % self.context())
            inner = self.take(kind="id")
            table = {"str": "str", "Element": "elem", "PeriodicTable": "table"}
            if inner not in table:
                raise Refuse("reference type `&%s`" % inner)
            return table[inner]
        ty = self.take(kind="id")
        if ty == "Result":
            self.take("<")
            a = self.type_(generics)
            self.take(",")
            e = self.take(kind="id")
            self.take(">")
            if e == ERROR:
                return ("res", a)
            if e == "ParseIntError" and a in ("i32", "u16"):
                return ("opt", "i32p" if a == "i32" else "u16")
            raise Refuse("Result type with error `%s`" % e)
        if ty in generics:
            return generics[ty]
        table = {"char": "char", "usize": "usize", "i32": "i32", "u16": "u16", "bool": "bool", "ChemicalComposition": "comp",
                 "Self": "parser", PARSER: "parser"}
        if ty not in table:
            raise Refuse("type `%s`" % ty)
        if self.at("<"):          # ChemicalComposition<'lifespan>: the lifetime tokens are already gone
            self.take("<")
            self.take(">")
        return table[ty]

    def signature(self):
        self.take("fn")
        name = self.take(kind="id")
        generics = {}
        if self.at("<"):
            self.take()
            while not self.at(">"):
                if self.at(",") or self.at(":"):        # what is left of lifetime parameters and their bounds
                    self.take()
                    continue
                g = self.take(kind="id")
                if self.at(":"):
                    self.take(":")
                    bound = []
                    depth = 0
                    while not (depth == 0 and (self.at(",") or self.at(">"))):
                        v = self.take()
                        depth += v == "<"
                        depth -= v == ">"
                        bound.append(v)
                    if bound in (["From", "<", "ChemicalComposition", "<", ">", ">"], ["From", "<", "ChemicalComposition", ">"]):
                        generics[g] = "comp"
                    elif bound:
                        raise Refuse("generic parameter %s: %s" % (g, " ".join(bound)))
                if self.at(","):
                    self.take()
            self.take(">")
        self.take("(")
        selfkind = None
        if self.at("&", "mut", "self"):
            self.i += 3
            selfkind = "mutref"
        elif self.at("&", "self") or self.at("self") or self.at("mut", "self"):
            raise Refuse("a `self` receiver other than `&mut self`")
        params = []
        while not self.at(")"):
            if selfkind is not None or params:
                self.take(",")
                if self.at(")"):
                    break
            if self.at("mut"):
                raise Refuse("`mut` parameter near `%s`" % self.context())
            a = self.take(kind="id")
            self.take(":")
            params.append((a, self.type_(generics)))
        self.take(")")
        rty = "unit"
        if self.at("->"):
            self.take()
            rty = self.type_(generics)
        if self.at("where"):
            raise Refuse("`where` clause")
        self.end()
        return name, selfkind, params, rty

    # ---- expressions.  nostruct: condition / scrutinee / iterable position
    def expr(self, nostruct=False):
        a = self.and_(nostruct)
        while self.at("||"):
            self.take()
            a = ("logic", "||", a, self.and_(nostruct))
        if self.peek()[1] in ("..", "..=", "^", "%", "as", "|") and self.peek()[0] in ("op", "id"):
            raise Refuse("operator %r near `%s`" % (self.peek()[1], self.context()))
        return a

    def and_(self, nostruct):
        a = self.cmp(nostruct)
        while self.at("&&"):
            self.take()
            a = ("logic", "&&", a, self.cmp(nostruct))
        return a

    def cmp(self, nostruct):
        a = self.arith(nostruct)
        if self.peek()[0] == "op" and self.peek()[1] in CMP:
            op = self.take()
            b = self.arith(nostruct)
            if self.peek()[0] == "op" and self.peek()[1] in CMP:
                raise Refuse("chained comparison near `%s`" % self.context())
            a = ("cmp", op, a, b)
        return a

    def arith(self, nostruct):
        a = self.term(nostruct)
        while self.peek()[0] == "op" and self.peek()[1] in ("+", "-"):
            op = self.take()
            a = ("bin", op, a, self.term(nostruct))
        return a

    def term(self, nostruct):
        a = self.unary(nostruct)
        while self.peek()[0] == "op" and self.peek()[1] in ("*", "/"):
            op = self.take()
            if op == "/":
                raise Refuse("operator `/` near `%s`" % self.context())
            a = ("bin", op, a, self.unary(nostruct))
        return a

    def unary(self, nostruct):
        if self.at("!"):
            self.take()
            return ("not", self.unary(nostruct))
        if self.at("-"):
            self.take()
            return ("neg", self.unary(nostruct))
        if self.at("*"):
            self.take()
            return ("deref", self.unary(nostruct))
        if self.at("&"):
            self.take()
            if self.at("mut"):
                raise Refuse("`&mut` expression near `%s`" % self.context())
            return ("addr", self.unary(nostruct))
        if self.at("&&"):
            raise Refuse("`&&` reference near `%s`" % self.context())
        return self.postfix(nostruct)

    def args(self):
        self.take("(")
        out = []
        while not self.at(")"):
            if self.at("|") or self.at("||"):
                raise Refuse("closure near `%s`" % self.context())
            out.append(self.expr())
            if self.at(","):
                self.take()
            elif not self.at(")"):
                raise Refuse("argument list near `%s`" % self.context())
        self.take(")")
        return out

    def postfix(self, nostruct):
        a = self.primary(nostruct)
        while True:
            if self.at("."):
                self.take()
                if self.peek()[0] != "id":
                    raise Refuse("tuple field / float near `%s`" % self.context())
                f = self.take(kind="id")
                tf = None
                if self.at("::"):
                    self.take()
                    self.take("<")
                    tf = self.take(kind="id")
                    self.take(">")
                if self.at("("):
                    a = ("mcall", a, f, tf, self.args())
                elif tf is not None:
                    raise Refuse("turbofish without a call near `%s`" % self.context())
                else:
                    a = ("field", a, f)
            elif self.at("["):
                self.take()
                if self.at(".."):
                    raise Refuse("range without a lower bound near `%s`" % self.context())
                lo = self.arith(False)
                if not self.at(".."):
                    raise Refuse("indexing that is not a slice `[a..b]` near `%s`" % self.context())
                self.take()
                if self.at("]"):
                    raise Refuse("range without an upper bound near `%s`" % self.context())
                hi = self.arith(False)
                self.take("]")
                a = ("slice", a, lo, hi)
            elif self.at("?"):
                self.take()
                a = ("try", a)
            else:
                return a

    def primary(self, nostruct):
        k, v = self.peek()
        if k == "int":
            self.take()
            return ("int", v.replace("_", ""))
        if k == "char":
            self.take()
            return ("char", int(v))
        if k in ("num", "strlit"):
            raise Refuse("literal %s near `%s`" % (v, self.context()))
        if k == "op" and v == "(":
            self.take()
            if self.at(")"):
                raise Refuse("unit value `()` near `%s`" % self.context())
            a = self.expr()
            if self.at(","):
                raise Refuse("tuple expression near `%s`" % self.context())
            self.take(")")
            return ("paren", a)
        if k == "id" and v in ("true", "false"):
            self.take()
            return ("bool", v)
        if k == "id" and v == "if":
            return self.if_()
        if k == "id" and v == "match":
            return self.match_()
        if k == "id":
            if v in KEYWORDS:
                raise Refuse("`%s` in expression position near `%s`" % (v, self.context()))
            self.take()
            if self.at("!"):
                raise Refuse("macro `%s!`" % v)
            if self.at("::"):
                path = [v]
                while self.at("::"):
                    self.take()
                    if self.at("<"):
                        raise Refuse("turbofish on a path near `%s`" % self.context())
                    path.append(self.take(kind="id"))
                if self.at("("):
                    return ("pcall", tuple(path), self.args())
                return ("path", tuple(path))
            if self.at("{") and not nostruct and v[:1].isupper():
                self.take()
                fields = []
                while not self.at("}"):
                    if self.at(".."):
                        raise Refuse("struct update syntax `..` in a %s literal" % v)
                    f = self.take(kind="id")
                    if self.at(":"):
                        self.take()
                        e = self.expr()
                    else:
                        e = ("var", f)
                    fields.append((f, e))
                    if self.at(","):
                        self.take()
                    elif not self.at("}"):
                        raise Refuse("struct literal near `%s`" % self.context())
                self.take("}")
                return ("struct", v, fields)
            if self.at("("):
                return ("call", v, self.args())
            return ("var", v)
        raise Refuse("unexpected %r near `%s`" % (v, self.context()))

    def if_(self):
        self.take("if")
        if self.at("let"):
            raise Refuse("`if let`")
        c = self.expr(True)
        b1 = self.block()
        b2 = None
        if self.at("else"):
            self.take()
            if self.at("if"):
                inner = self.if_()
                b2 = ([], inner) if valued(inner) else ([inner], None)
            else:
                b2 = self.block()
        return ("if", c, b1, b2)

    def match_(self):
        self.take("match")
        scrut = self.expr(True)
        self.take("{")
        arms = []
        while not self.at("}"):
            if self.at("_"):
                self.take()
                pat = ("pwild",)
            else:
                h = self.take(kind="id")
                if self.at("::"):
                    path = [h]
                    while self.at("::"):
                        self.take()
                        path.append(self.take(kind="id"))
                    if self.at("(") or self.at("{"):
                        raise Refuse("pattern with a payload near `%s`" % self.context())
                    pat = ("pvariant", tuple(path))
                elif h in ("Ok", "Err") and self.at("("):
                    self.take()
                    b = self.take("_") if self.at("_") else self.take(kind="id")
                    self.take(")")
                    pat = ("pctor", h, b)
                else:
                    raise Refuse("pattern `%s` near `%s`" % (h, self.context()))
            if self.at("|") or self.at("if"):
                raise Refuse("or-pattern / match guard near `%s`" % self.context())
            self.take("=>")
            if self.at("{"):
                start, depth, j = self.i, 0, self.i
                while j < len(self.t):
                    depth += self.t[j] == ("op", "{")
                    depth -= self.t[j] == ("op", "}")
                    j += 1
                    if depth == 0:
                        break
                try:
                    body = self.block()
                except Refuse as e:             # only this arm is outside the subset: go on after its block
                    if depth:
                        raise
                    self.i = j
                    body = ("bad", str(e))
                if self.at(","):
                    self.take()
            elif self.at("return"):
                self.take()
                body = ([("ret", self.expr())], None)
                if not self.at("}"):
                    self.take(",")
            else:
                body = ([], self.expr())
                if not self.at("}"):
                    self.take(",")
            arms.append((pat, body))
        self.take("}")
        return ("match", scrut, arms)

    # ---- statements
    def place_ahead(self):
        """name ['.' field] followed by an assignment operator: its token length"""
        if self.peek()[0] != "id":
            return None
        n = 1
        if self.peek(1)[1] == "." and self.peek(2)[0] == "id" and self.peek(3)[1] != "(":
            n = 3
        nxt = self.peek(n)
        if nxt[0] == "op" and nxt[1] in ("=", "+=", "-="):
            return n
        if nxt[0] == "op" and nxt[1] in ("*=", "/=", "%="):
            raise Refuse("assignment operator `%s`" % nxt[1])
        return None

    def block(self):
        self.take("{")
        stmts, tail = [], None
        while not self.at("}"):
            if tail is not None:
                raise Refuse("an expression that is not last in its block, near `%s`" % self.context())
            k, v = self.peek()
            if k == "eof":
                raise Refuse("unterminated block")
            if (k, v) == ("id", "let"):
                self.take()
                mut = False
                if self.at("mut"):
                    self.take()
                    mut = True
                if self.peek()[0] != "id":
                    raise Refuse("pattern in `let` near `%s`" % self.context())
                x = self.take(kind="id")
                ty = None
                if self.at(":"):
                    self.take()
                    ty = self.type_({})
                if not self.at("="):
                    raise Refuse("`let %s` without initialiser" % x)
                self.take("=")
                stmts.append(("let", mut, x, ty, self.expr()))
                self.take(";")
            elif (k, v) == ("id", "return"):
                self.take()
                if self.at(";"):
                    raise Refuse("`return;` without a value")
                stmts.append(("ret", self.expr()))
                self.take(";")
            elif (k, v) == ("id", "for"):
                self.take()
                self.take("(")
                a = self.take(kind="id")
                self.take(",")
                b = self.take(kind="id")
                self.take(")")
                self.take("in")
                it = self.expr(True)
                stmts.append(("for", (a, b), it, self.block()))
            elif (k, v) == ("id", "if"):
                e = self.if_()
                if valued(e):
                    tail = e
                else:
                    stmts.append(e)
                    if self.at(";"):
                        self.take()
            elif (k, v) == ("id", "match"):
                e = self.match_()
                if self.at("}") and any(b[0] != "bad" and b[1] is not None for _, b in e[2]):
                    tail = e
                else:
                    stmts.append(e)
                    if self.at(";"):
                        self.take()
            elif k == "id" and v in ("while", "loop", "continue", "break", "unsafe"):
                raise Refuse("`%s`" % v)
            elif k == "id" and self.place_ahead() is not None:
                n = self.place_ahead()
                x = self.take(kind="id")
                lv = ("var", x)
                if n == 3:
                    self.take(".")
                    lv = ("field", lv, self.take(kind="id"))
                op = self.take()
                stmts.append(("asg", lv, op, self.expr()))
                self.take(";")
            else:
                e = self.expr()
                if self.at(";"):
                    self.take()
                    stmts.append(("expr", e))
                elif self.peek()[0] == "op" and self.peek()[1] in ("=", "+=", "-=", "*=", "/="):
                    raise Refuse("assignment to `%s`" % describe(e))
                else:
                    tail = e
        self.take("}")
        return (stmts, tail)


def valued(e):
    """an `if` node some branch of which ends in an expression: it is used as a value"""
    if e[0] != "if":
        return False
    return e[2][1] is not None or (e[3] is not None and e[3][1] is not None)


def describe(e):
    k = e[0]
    if k == "var":
        return e[1]
    if k == "field":
        return "%s.%s" % (describe(e[1]), e[2])
    if k == "mcall":
        return "%s.%s(..)" % (describe(e[1]), e[2])
    if k == "pcall":
        return "::".join(e[1]) + "(..)"
    if k == "path":
        return "::".join(e[1])
    if k == "call":
        return "%s(..)" % e[1]
    if k == "slice":
        return "%s[..]" % describe(e[1])
    if k in ("addr", "deref", "paren", "try"):
        return describe(e[1])
    return "<%s>" % k


# ------------------------------------------------------------------ typed translation to Gallina text
COQ_TY = {"str": "str", "char": "char", "usize": "nat", "i32": "Z", "u16": "N", "i32p": "N", "bool": "bool", "elem": "str",
          "espec": "key", "comp": "ents", "parser": "cfg", "state": "st", "err": "err", "unit": "unit"}
CHAR_TESTS = {"is_ascii_alphabetic": "is_alpha %s", "is_ascii_uppercase": "is_upper %s", "is_ascii_lowercase": "is_lower %s",
              "is_ascii_digit": "is_digit %s", "is_numeric": "is_numeric (uni_numeric O) %s",
              "is_alphabetic": "char_is_alphabetic O %s", "is_uppercase": "char_is_uppercase O %s",
              "is_lowercase": "char_is_lowercase O %s"}


def coq_ty(ty):
    if isinstance(ty, tuple) and ty[0] == "opt":
        return "option %s" % COQ_TY[ty[1]]
    return COQ_TY[ty]


def show(ty):
    if isinstance(ty, tuple):
        if ty[0] == "opt":
            return "Result<%s, ParseIntError>/Option" % show(ty[1])
        if ty[0] == "option":
            return "Option<%s>" % show(ty[1])
        if ty[0] == "pend":
            return "Result<%s, %s>" % (show(ty[1]), ERROR)
        if ty[0] == "res":
            return "Result<%s, %s>" % (show(ty[1]), ERROR)
    return {"i32p": "i32", "elem": "&Element", "espec": "ElementSpecification", "comp": "ChemicalComposition",
            "parser": PARSER, "state": STATE, "err": ERROR, "table": "&PeriodicTable", "str": "&str"}.get(ty, ty)


def calls_of(block, methods, acc):
    """names of methods of `impl FormulaParser` a body calls (syntactically)"""
    def walk(o):
        if isinstance(o, tuple):
            if o and o[0] == "mcall" and o[1][0] == "var" and o[3] is None and o[2] in methods:
                acc.add(o[2])
            if o and o[0] == "pcall" and len(o[1]) == 2 and o[1][0] in ("Self", PARSER) and o[1][1] in methods:
                acc.add(o[1][1])
            for c in o:
                walk(c)
        elif isinstance(o, list):
            for c in o:
                walk(c)
    walk(block)
    return acc


class Fn:
    """translation of one method; env: name -> {ty, mut, idx}"""

    def __init__(self, name, selfkind, params, rty, body, world, mode):
        self.name, self.selfkind, self.params, self.rty, self.body, self.world, self.mode = name, selfkind, params, rty, body, world, mode
        self.counter, self.tmp = 0, 0
        self.defs = []                 # (unit, text) of the match arms and dispatchers, then of the function
        self.labels = {}
        self.value_depth = 0
        self.arm_skips = {}
        self.cont_ty = None
        self.deferred = None
        self.value_ty = rty[1] if isinstance(rty, tuple) and rty[0] == "res" else (None if rty == "unit" else rty)
        if isinstance(rty, tuple) and rty[0] == "res":
            self.mode = "fres"

    def refuse(self, msg):
        raise Refuse(msg)

    def fresh(self, p):
        self.tmp += 1
        return "%s_%d" % (p, self.tmp)

    def monad(self):
        if self.mode != "fres":
            raise NeedMonad()

    def ret(self, text):
        return "FOk %s" % atom(text) if self.mode == "fres" else text

    def pack(self, v):
        if self.selfkind is not None:
            return "self" if v is None else "(%s, self)" % strip(v)
        if v is None:
            self.refuse("a function without a receiver and without a result")
        return v

    def declare(self, env, x, ty, mut, top):
        if x in env and not top:
            self.refuse("`%s` shadows a local in a nested block" % x)
        if x == "self" or x in RESERVED or not re.fullmatch(r"[a-z][a-z0-9_]*", x) or x.endswith("_gen") \
                or re.fullmatch(r"[tr]_\d+|rec_\w+", x):
            self.refuse("local name `%s` is reserved or not a plain lower-case identifier" % x)
        env = dict(env)
        self.counter += 1
        env[x] = {"ty": ty, "mut": mut, "idx": self.counter}
        return env

    def rebind(self, x, env, what):
        if self.value_depth:
            self.refuse("%s inside a block that is used as a value" % what)
        if x not in env:
            self.refuse("%s of `%s`, which is not a local" % (what, x))
        if not env[x]["mut"]:
            self.refuse("%s of `%s`, which is not mutable" % (what, x))

    @staticmethod
    def tup(names):
        return "tt" if not names else names[0] if len(names) == 1 else "(" + ", ".join(names) + ")"

    @staticmethod
    def pat(names):
        return "_" if not names else names[0] if len(names) == 1 else "'(" + ", ".join(names) + ")"

    def seq(self, parts):
        """evaluation in order: a later part must not re-bind a variable an earlier part's text reads"""
        for i, (_, text, _) in enumerate(parts):
            for pre, _, _ in parts[i + 1:]:
                for _, rb in pre:
                    for v in rb:
                        if re.search(r"\b%s\b" % re.escape(v), text):
                            self.refuse("an operand reads `%s` before a later operand of the same expression changes it" % v)
        out = []
        for pre, _, _ in parts:
            out.extend(pre)
        return out

    @staticmethod
    def join(pre):
        return "".join(l + "\n" for l, _ in pre)

    # ---- literals and coercions
    def lit(self, e, want):
        n = int(e[1])
        if n > 1000000:
            self.refuse("integer literal %s is too large" % e[1])
        if want == "usize":
            return "%d%%nat" % n, "usize"
        if want == "i32":
            return "%d%%Z" % n, "i32"
        if want in ("u16", "i32p"):
            return "%d%%N" % n, want
        self.refuse("integer literal %s where its type (usize / i32 / u16) is not known" % e[1])

    def coerce(self, text, ty, want, what):
        if ty == want:
            return text
        if ty == "i32p" and want == "i32":
            return "(Z.of_N %s)" % atom(text)
        self.refuse("%s has type %s, expected %s" % (what, show(ty), show(want)))

    # ---- expressions: (pre, text, type); pre: [(line, names it re-binds)]
    def ex(self, e, env, want=None):
        k = e[0]
        if k == "paren":
            return self.ex(e[1], env, want)
        if k == "int":
            t, ty = self.lit(e, want)
            return [], t, ty
        if k == "char":
            return [], "%d%%N" % e[1], "char"
        if k == "bool":
            return [], e[1], "bool"
        if k == "var":
            if e[1] in env:
                return [], e[1], env[e[1]]["ty"]
            if e[1] == "PERIODIC_TABLE" and "PERIODIC_TABLE" in self.world.statics:
                return [], "<table>", "table"
            self.refuse("unknown name `%s`" % e[1])
        if k in ("addr", "deref"):
            return self.ex(e[1], env, want)
        if k == "not":
            pre, a, ta = self.ex(e[1], env)
            if ta != "bool":
                self.refuse("`!` on %s" % show(ta))
            return pre, "(negb %s)" % atom(a), "bool"
        if k == "neg":
            self.refuse("unary minus")
        if k == "path":
            p = e[1]
            for enum, ty, model in ((ERROR, "err", MODEL_ERRORS), (STATE, "state", MODEL_STATES)):
                if len(p) == 2 and p[0] == enum and p[1] in self.world.info["errors" if ty == "err" else "states"]:
                    if p[1] not in model:
                        self.refuse("`%s` is not a constructor of the model's `%s`" % ("::".join(p), "err" if ty == "err" else "st"))
                    return [], p[1], ty
            self.refuse("path `%s`" % "::".join(p))
        if k == "field":
            pre, a, ta = self.ex(e[1], env)
            if ta == "parser" and e[2] in FIELDS:
                acc, _, fty = FIELDS[e[2]]
                return pre, "(%s %s)" % (acc, atom(a)), fty
            if ta == "elem" and e[2] == "isotopes":
                return pre, a, "isomap"
            self.refuse("field `.%s` of %s" % (e[2], show(ta)))
        if k == "slice":
            p0 = self.ex(e[1], env)
            p1 = self.ex(e[2], env, "usize")
            p2 = self.ex(e[3], env, "usize")
            if p0[2] != "str" or p1[2] != "usize" or p2[2] != "usize":
                self.refuse("slice `%s[%s..%s]`" % (show(p0[2]), show(p1[2]), show(p2[2])))
            self.monad()
            pre = self.seq([p0, p1, p2])
            t = self.fresh("t")
            pre.append(("%s <- sl %s %s %s ;;" % (t, atom(p0[1]), atom(p1[1]), atom(p2[1])), ()))
            return pre, t, "str"
        if k == "try":
            pre, a, ta = self.ex(e[1], env)
            if not (isinstance(ta, tuple) and ta[0] == "pend"):
                self.refuse("`?` on %s" % show(ta))
            if not (isinstance(self.rty, tuple) and self.rty[0] == "res"):
                self.refuse("`?` in a function whose result is not a Result<_, %s>" % ERROR)
            return self.consume(pre, a, ta, env)
        if k == "bin":
            return self.bin(e, env, want)
        if k == "cmp":
            return self.cmp(e, env)
        if k == "logic":
            pa, a, ta = self.ex(e[2], env)
            pb, b, tb = self.ex(e[3], env)
            if ta != "bool" or tb != "bool":
                self.refuse("`%s` on %s and %s" % (e[1], show(ta), show(tb)))
            if pa or pb:
                self.refuse("an operand of `%s` that slices, propagates an error or calls a method" % e[1])
            return [], "(%s %s %s)" % ("orb" if e[1] == "||" else "andb", atom(a), atom(b)), "bool"
        if k == "struct":
            if e[1] != "ElementSpecification" or [f for f, _ in e[2]] not in (["element", "isotope"], ["isotope", "element"]):
                self.refuse("struct literal %s { %s }" % (e[1], ", ".join(f for f, _ in e[2])))
            parts, d = [], {}
            for f, fe in e[2]:
                p = self.ex(fe, env, "u16" if f == "isotope" else None)
                if p[2] != ("elem" if f == "element" else "u16"):
                    self.refuse("field %s of type %s" % (f, show(p[2])))
                parts.append(p)
                d[f] = p[1]
            return self.seq(parts), "(%s, %s)" % (strip(d["element"]), strip(d["isotope"])), "espec"
        if k == "call":
            self.refuse("`%s(..)` in this position" % e[1])
        if k == "pcall":
            path, args = e[1], e[2]
            if path in (("Self", "default"), (PARSER, "default")) and not args:
                if "default" in self.world.skipped:
                    self.refuse("%s::default() without #[derive(Default)] / #[default]" % PARSER)
                return [], "FormulaParser_default_gen", "parser"
            if path == ("ChemicalComposition", "default") and not args:
                return [], "(@nil (key * Z))", "comp"
            if len(path) == 2 and path[0] in ("Self", PARSER):
                return self.method_call(None, path[1], args, env)
            self.refuse("call of `%s`" % "::".join(path))
        if k == "mcall":
            return self.mcall(e, env, want)
        if k == "if":
            return self.value_if(e, env, want)
        if k == "match":
            return self.value_match(e, env, want)
        self.refuse("expression form %r" % k)

    def consume(self, pre, call, ta, env):
        """`?` on a pending Result: bind it (and take the receiver's new state)"""
        _, T, recv, _ = ta
        self.monad()
        pre = list(pre)
        if recv is None:
            if T == "unit":
                pre.append(("_ <- %s ;;" % strip(call), ()))
                return pre, "tt", "unit"
            t = self.fresh("t")
            pre.append(("%s <- %s ;;" % (t, strip(call)), ()))
            return pre, t, T
        self.rebind(recv, env, "a `&mut self` call")
        if T == "unit":
            pre.append(("%s <- %s ;;" % (recv, strip(call)), (recv,)))
            return pre, "tt", "unit"
        r, t = self.fresh("r"), self.fresh("t")
        pre.append(("%s <- %s ;;" % (r, strip(call)), ()))
        pre.append(("let '(%s, %s) := %s in" % (t, recv, r), (recv,)))
        return pre, t, T

    def bin(self, e, env, want):
        op = e[1]
        if e[2][0] == "int" and e[3][0] == "int":
            self.refuse("arithmetic on two literals")
        if e[2][0] == "int":
            pb = self.ex(e[3], env, want)
            pa = self.ex(e[2], env, pb[2])
        else:
            pa = self.ex(e[2], env, want)
            pb = self.ex(e[3], env, "i32" if pa[2] == "comp" else pa[2])
        pre = self.seq([pa, pb])
        (_, a, ta), (_, b, tb) = pa, pb
        if ta == "usize" and tb == "usize" and op == "+" and e[3][0] == "int":
            return pre, "(%s + %s)%%nat" % (atom(a), b.replace("%nat", "")), "usize"
        if ta in ("i32", "i32p") and tb in ("i32", "i32p") and op in ("+", "-"):
            return pre, "(%s %s %s)%%Z" % (atom(self.coerce(a, ta, "i32", "")), op, atom(self.coerce(b, tb, "i32", "").replace("%Z", ""))), "i32"
        if ta == "comp" and tb in ("i32", "i32p") and op == "*":
            return pre, "(e_mul %s %s)" % (atom(a), atom(self.coerce(b, tb, "i32", ""))), "comp"
        self.refuse("`%s` on %s and %s (usize: only <offset> + <literal>)" % (op, show(ta), show(tb)))

    def cmp(self, e, env):
        op = e[1]
        if e[2][0] == "int" and e[3][0] == "int":
            self.refuse("comparison of two literals")
        if e[2][0] == "int":
            pb = self.ex(e[3], env)
            pa = self.ex(e[2], env, pb[2])
        else:
            pa = self.ex(e[2], env)
            pb = self.ex(e[3], env, pa[2])
        pre = self.seq([pa, pb])
        (_, a, ta), (_, b, tb) = pa, pb
        if {ta, tb} == {"i32", "i32p"}:
            a, b, ta, tb = self.coerce(a, ta, "i32", ""), self.coerce(b, tb, "i32", ""), "i32", "i32"
        mod = {"usize": "Nat", "i32": "Z", "u16": "N", "i32p": "N", "char": "N"}.get(ta)
        if ta != tb or mod is None or (ta == "char" and op not in ("==", "!=")):
            self.refuse("comparison `%s` of %s and %s" % (op, show(ta), show(tb)))
        f = lambda fn, x, y: "(%s.%s %s %s)" % (mod, fn, atom(x), atom(y))
        return pre, {"==": f("eqb", a, b), "!=": "(negb %s)" % f("eqb", a, b), "<": f("ltb", a, b), "<=": f("leb", a, b),
                     ">": f("ltb", b, a), ">=": f("leb", b, a)}[op], "bool"

    def mcall(self, e, env, want):
        _, recv, m, tf, args = e
        if recv[0] == "var" and recv[1] in env and env[recv[1]]["ty"] == "parser" and tf is None:
            return self.method_call(recv[1], m, args, env)
        pre, a, ta = self.ex(recv, env)
        if ta == "char" and m in CHAR_TESTS and not args and tf is None:
            return pre, "(%s)" % (CHAR_TESTS[m] % atom(a)), "bool"
        if ta == "str" and m == "len" and not args and tf is None:
            return pre, "(blen %s)" % atom(a), "usize"
        if ta == "str" and m == "parse" and not args and tf in ("i32", "u16"):
            return pre, "(parse_%s %s)" % (tf, atom(a)), ("opt", "i32p" if tf == "i32" else "u16")
        if ta == "table" and m == "get" and len(args) == 1 and tf is None:
            pb = self.ex(args[0], env)
            if pb[2] != "str":
                self.refuse("PeriodicTable::get(%s)" % show(pb[2]))
            return self.seq([(pre, a, ta), pb]), "(tbl_get O %s)" % atom(pb[1]), ("option", "elem")
        if isinstance(ta, tuple) and ta[0] == "option" and m == "ok_or" and len(args) == 1 and tf is None:
            pb = self.ex(args[0], env)
            if pb[2] != "err":
                self.refuse("ok_or(%s)" % show(pb[2]))
            return self.seq([(pre, a, ta), pb]), "(of_opt %s %s)" % (pb[1], atom(a)), ("pend", ta[1], None, False)
        if ta == "isomap" and m == "contains_key" and len(args) == 1 and tf is None:
            pb = self.ex(args[0], env)
            if pb[2] != "u16":
                self.refuse("contains_key(%s)" % show(pb[2]))
            return self.seq([(pre, a, ta), pb]), "(has_iso O %s %s)" % (atom(a), atom(pb[1])), "bool"
        if ta == "comp" and m == "into" and not args and tf is None:
            return pre, a, "comp"
        self.refuse("method `.%s%s(..)` on %s" % (m, "::<%s>" % tf if tf else "", show(ta)))

    def method_call(self, recv, m, args, env):
        w = self.world
        if m not in w.info["methods"]:
            self.refuse("call of `%s`, which is not a method of `impl %s`" % (m, PARSER))
        sig = w.sig(m, self.name)                # its signature; translated first unless it is the knot of our cycle
        if (sig["selfkind"] is None) != (recv is None):
            self.refuse("`%s` called %s a receiver" % (m, "without" if recv is None else "with"))
        if len(sig["params"]) != len(args):
            self.refuse("call of %s with %d arguments" % (m, len(args)))
        parts = []
        for arg, (pn, pt) in zip(args, sig["params"]):
            p = self.ex(arg, env, pt if pt in ("usize", "i32", "u16") else None)
            if isinstance(p[2], tuple) and p[2][0] == "pend":
                self.refuse("a Result passed as an argument")
            if pt == "table":
                if p[2] != "table":
                    self.refuse("argument `%s` of %s is not the periodic table" % (pn, m))
                continue
            parts.append((p[0], self.coerce(p[1], p[2], pt, "argument `%s` of %s" % (pn, m)), pt))
        pre = self.seq(parts)
        head = w.call_head(m, self.name)
        call = "(%s%s%s)" % (head, " " + recv if recv is not None else "", "".join(" " + atom(p[1]) for p in parts))
        rty, mode = sig["rty"], sig["mode"]
        if isinstance(rty, tuple) and rty[0] == "res":
            return pre, call, ("pend", rty[1], recv, False)
        vt = "unit" if rty == "unit" else rty
        if mode == "fres":
            p2, t, ty = self.consume(pre, call, ("pend", vt, recv, False), env)
            return p2, t, ty
        if recv is None:
            return pre, call, vt
        self.rebind(recv, env, "a `&mut self` call")
        if vt == "unit":
            pre.append(("let %s := %s in" % (recv, strip(call)), (recv,)))
            return pre, "tt", "unit"
        t = self.fresh("t")
        pre.append(("let '(%s, %s) := %s in" % (t, recv, strip(call)), (recv,)))
        return pre, t, vt

    # ---- blocks used as values: an fres text and the value's type ("never": the block always leaves by `return`)
    def blockval(self, b, env, want):
        self.monad()
        holder = []

        def k(env2):
            if b[1] is None:
                self.refuse("a block used as a value that has no final expression")
            pre, t, ty = self.ex(b[1], env2, want)
            if isinstance(ty, tuple) and ty[0] == "pend":
                self.refuse("a Result as the value of a block")
            holder.append(ty)
            return self.join(pre) + "FOk %s" % atom(t)
        self.value_depth += 1
        try:
            text = self.with_cont_ty(None, lambda: self.stmts(b[0], env, k, False, False))
        finally:
            self.value_depth -= 1
        return text, (holder[0] if holder else "never")

    def unify(self, tys, what):
        real = [t for t in tys if t != "never"]
        if not real:
            self.refuse("%s none of whose branches has a value" % what)
        if any(t != real[0] for t in real):
            self.refuse("%s whose branches have types %s" % (what, " / ".join(show(t) for t in real)))
        return real[0]

    def value_if(self, e, env, want):
        _, c, b1, b2 = e
        if b2 is None:
            self.refuse("an `if` without `else` used as a value")
        pc, ct, tc = self.ex(c, env)
        if tc != "bool":
            self.refuse("`if` on a %s" % show(tc))
        if want is None:            # learn the type from the branch that is not a bare literal
            for b in (b1, b2):
                if b[1] is not None and b[1][0] != "int":
                    try:
                        want = self.blockval(b, env, None)[1]
                    except Refuse:
                        pass
                    break
        t1, ty1 = self.blockval(b1, env, want)
        t2, ty2 = self.blockval(b2, env, want)
        ty = self.unify([ty1, ty2], "an `if`")
        t = self.fresh("t")
        pre = list(pc)
        pre.append(("%s <- (if %s then\n%s\n  else\n%s) ;;" % (t, strip(ct), ind(t1, 4), ind(t2, 4)), ()))
        return pre, t, ty

    def value_match(self, e, env, want):
        _, scrut, arms = e
        ps, st, ts = self.ex(scrut, env)
        if not (isinstance(ts, tuple) and ts[0] == "opt"):
            self.refuse("`match` as a value on %s (only on a Result<_, ParseIntError>)" % show(ts))
        seen = {}
        for pat, body in arms:
            if body[0] == "bad":
                self.refuse(body[1])
            if pat[0] != "pctor" or pat[1] in seen:
                self.refuse("arm pattern of a `match` on a Result (want one `Ok(x)` and one `Err(x)`)")
            seen[pat[1]] = (pat[2], body)
        if set(seen) != {"Ok", "Err"}:
            self.refuse("a `match` on a Result without both `Ok(x)` and `Err(x)`")
        self.monad()
        x, body = seen["Ok"]
        if x == "_":
            binder, env_ok = "_", env
        else:
            env_ok = self.declare(env, x, ts[1], False, False)
            binder = x
        t_ok, ty_ok = self.blockval(body, env_ok, want)
        t_err, ty_err = self.blockval(seen["Err"][1], env, want)     # the ParseIntError itself is not representable
        if seen["Err"][0] != "_" and ("('var', '%s')" % seen["Err"][0]) in repr(seen["Err"][1]):
            self.refuse("the `Err(%s)` arm uses the ParseIntError" % seen["Err"][0])
        ty = self.unify([ty_ok, ty_err], "a `match`")
        t = self.fresh("t")
        pre = list(ps)
        pre.append(("%s <- (match %s with\n  | Some %s =>\n%s\n  | None =>\n%s\n  end) ;;" % (t, strip(st), binder, ind(t_ok, 6), ind(t_err, 6)), ()))
        return pre, t, ty

    # ---- statements.  k(env): the text after normal completion of the statement list
    def mods(self, blocks, env):
        names = []

        def add(x):
            if x is not None and x in env and x not in names:
                names.append(x)

        def walk_e(o):
            if isinstance(o, tuple):
                if o and o[0] == "mcall" and o[1][0] == "var" and o[1][1] in env and env[o[1][1]]["ty"] == "parser" and o[3] is None:
                    add(o[1][1])
                for c in o:
                    walk_e(c)
            elif isinstance(o, list):
                for c in o:
                    walk_e(c)

        def walk(b):
            if b is None or b[0] == "bad":
                return
            for s in b[0]:
                if s[0] == "asg":
                    add(s[1][1] if s[1][0] == "var" else s[1][1][1])
                    walk_e(s[3])
                elif s[0] == "expr":
                    if s[1][0] == "mcall" and s[1][1][0] == "var" and s[1][2] == "inc":
                        add(s[1][1][1])
                    walk_e(s[1])
                elif s[0] == "let":
                    walk_e(s[4])
                elif s[0] == "ret":
                    walk_e(s[1])
                elif s[0] == "if":
                    walk_e(s[1])
                    walk(s[2])
                    walk(s[3])
                elif s[0] == "match":
                    walk_e(s[1])
                    for _, body in s[2]:
                        walk(body)
                elif s[0] == "for":
                    walk_e(s[2])
                    walk(s[3])
            if b[1] is not None:
                walk_e(b[1])
        for b in blocks:
            walk(b)
        return sorted(names, key=lambda x: (env[x]["ty"] == "parser", env[x]["idx"]))

    def tuple_ty(self, xs, env):
        t = "unit" if not xs else " * ".join(coq_ty(env[x]["ty"]) for x in xs)
        t = "(%s)" % t if len(xs) > 1 else t
        return "fres %s" % t if self.mode == "fres" else t

    def with_cont_ty(self, ty, f):
        saved, self.cont_ty = self.cont_ty, ty
        try:
            return f()
        finally:
            self.cont_ty = saved

    def bind_tuple(self, text, xs, rest):
        """run `text` (which yields the tuple of xs) and go on with `rest`"""
        if self.mode == "fres":
            if len(xs) == 1:
                return "%s <- (%s) ;;\n%s" % (xs[0], text, rest)
            if not xs:
                return "_ <- (%s) ;;\n%s" % (text, rest)
            r = self.fresh("r")
            return "%s <- (%s) ;;\nlet %s := %s in\n%s" % (r, text, self.pat(xs), r, rest)
        return "let %s := (%s) in\n%s" % (self.pat(xs), text, rest)

    def stmts(self, ss, env, k, in_loop, top):
        if not ss:
            return k(env)
        s, rest = ss[0], ss[1:]
        kind = s[0]
        again = lambda env2: self.stmts(rest, env2, k, in_loop, top)
        if kind == "let":
            _, mut, x, ty, rhs = s
            pre, t, te = self.ex(rhs, env, ty if ty in ("usize", "i32", "u16") else None)
            if isinstance(te, tuple) and te[0] == "pend":
                self.refuse("let %s = <a Result that is neither matched nor propagated by `?`>" % x)
            if te in ("table", "isomap", "unit", "never") or (isinstance(te, tuple) and te[0] == "option"):
                self.refuse("let %s of type %s" % (x, show(te)))
            if ty is not None and ty != te and not (ty == "i32" and te == "i32p"):
                self.refuse("let %s: declared %s, initialiser has %s" % (x, show(ty), show(te)))
            env2 = self.declare(env, x, te, mut, top)
            if re.fullmatch(r"t_\d+", t) and pre and re.search(r"\b%s\b" % t, pre[-1][0].split("\n")[0]):
                first, *more = pre[-1][0].split("\n")
                pre = pre[:-1] + [("\n".join([re.sub(r"\b%s\b" % t, x, first)] + more), pre[-1][1])]
                return self.join(pre) + again(env2)
            return self.join(pre) + "let %s := %s in\n%s" % (x, strip(t), again(env2))
        if kind == "asg":
            _, lv, op, rhs = s
            if lv[0] == "field":
                p, f = lv[1][1], lv[2]
                if p not in env or env[p]["ty"] != "parser" or f not in FIELDS:
                    self.refuse("assignment to `%s`" % describe(lv))
                self.rebind(p, env, "assignment")
                acc, setter, fty = FIELDS[f]
                pre, t, te = self.ex(rhs, env, fty if fty != "state" else None)
                if fty == "usize" and not self.offset_like(rhs, env):
                    self.refuse("`%s = %s`: not an offset of the string (a loop index, the length, or one of these + literal)" % (describe(lv), describe(rhs)))
                t = self.coerce(t, te, fty, "the value assigned to `%s`" % describe(lv))
                if op == "=":
                    val = t
                elif fty == "i32":
                    val = "(%s %s %s %s)%%Z" % (acc, p, op[0], atom(t.replace("%Z", "")))
                else:
                    self.refuse("`%s` on the %s field `%s`" % (op, show(fty), f))
                if re.search(r"\b%s\b" % p, t) and any(p in rb for _, rb in pre):
                    self.refuse("the assigned value reads `%s` and changes it" % p)
                return self.join(pre) + "let %s := %s %s %s in\n%s" % (p, setter, p, atom(val), again(env))
            x = lv[1]
            self.rebind(x, env, "assignment")
            tx = env[x]["ty"]
            pre, t, te = self.ex(rhs, env, tx if tx in ("usize", "i32", "u16") else None)
            if tx == "comp" and op == "+=" and te == "comp":
                return self.join(pre) + "let %s := e_add %s %s in\n%s" % (x, x, atom(t), again(env))
            if op == "=" and tx == te and tx in ("i32", "u16", "i32p", "bool", "char", "comp", "str", "elem", "espec"):
                return self.join(pre) + "let %s := %s in\n%s" % (x, strip(t), again(env))
            self.refuse("`%s %s <%s>` where the local has type %s" % (x, op, show(te), show(tx)))
        if kind == "expr":
            e = s[1]
            if e[0] == "mcall" and e[1][0] == "var" and e[1][1] in env and env[e[1][1]]["ty"] == "comp" and e[2] == "inc" \
                    and len(e[4]) == 2 and e[3] is None:
                x = e[1][1]
                self.rebind(x, env, "`.inc(..)`")
                pk = self.ex(e[4][0], env)
                pn = self.ex(e[4][1], env, "i32")
                if pk[2] != "espec":
                    self.refuse("inc(<%s>, ..)" % show(pk[2]))
                n = self.coerce(pn[1], pn[2], "i32", "the count of `inc`")
                return self.join(self.seq([pk, pn])) + "let %s := e_inc %s %s %s in\n%s" % (x, atom(pk[1]), atom(n), x, again(env))
            pre, t, te = self.ex(e, env)
            if te != "unit":
                self.refuse("expression statement `%s ...;` of type %s" % (describe(e), show(te)))
            return self.join(pre) + again(env)
        if kind == "ret":
            if rest:
                self.refuse("statements after `return`")
            e = s[1]
            if e[0] == "call" and e[1] == "Err" and len(e[2]) == 1 and isinstance(self.rty, tuple) and self.rty[0] == "res":
                pre, t, te = self.ex(e[2][0], env)
                if te != "err" or pre:
                    self.refuse("return Err(<%s>)" % show(te))
                return "FErr %s" % t
            self.refuse("`return` of something other than `Err(<%s variant>)`" % ERROR)
        if kind == "if":
            return self.if_stmt(s, rest, env, k, in_loop, again)
        if kind == "match":
            return self.match_stmt(s, rest, env, k, in_loop, again)
        if kind == "for":
            return self.loop(s, env, again, in_loop)
        self.refuse("statement form %r" % kind)

    def offset_like(self, e, env):
        """a usize that is a byte offset of a string: a loop index, a .len(), a local holding one, such + literal, 0"""
        k = e[0]
        if k == "paren":
            return self.offset_like(e[1], env)
        if k == "int":
            return True
        if k == "var":
            return e[1] in env and env[e[1]]["ty"] == "usize"
        if k == "mcall" and e[2] == "len":
            return True
        if k == "bin" and e[1] == "+" and e[3][0] == "int":
            return self.offset_like(e[2], env)
        if k == "field":
            return True
        return False

    def if_stmt(self, s, rest, env, k, in_loop, again):
        _, c, b1, b2 = s
        pc, ct, tc = self.ex(c, env)
        if tc != "bool":
            self.refuse("`if` on a %s" % show(tc))
        if pc:
            self.refuse("an `if` condition that slices, propagates an error or calls a method")
        for b in (b1, b2):
            if b is not None and b[1] is not None:
                self.refuse("an `if` statement a branch of which ends in an expression")
        if rest:
            xs = self.mods([b1, b2], env)
            inner = lambda _env: self.ret(self.tup(xs))
            cty = self.tuple_ty(xs, env)
        else:
            inner = lambda _env: k(env)
            cty = self.cont_ty
        t1 = self.with_cont_ty(cty, lambda: self.stmts(b1[0], env, inner, in_loop, False))
        t2 = self.with_cont_ty(cty, lambda: self.stmts(b2[0], env, inner, in_loop, False)) if b2 is not None else inner(env)
        text = "if %s then\n%s\nelse\n%s" % (strip(ct), ind(t1), ind(t2))
        if rest:
            return self.bind_tuple(text, xs, again(env))
        return text

    def match_stmt(self, s, rest, env, k, in_loop, again):
        _, scrut, arms = s
        if not (scrut[0] == "field" and scrut[1][0] == "var" and scrut[2] == "state" and scrut[1][1] in env
                and env[scrut[1][1]]["ty"] == "parser"):
            self.refuse("a `match` statement on something other than `<parser>.state`")
        p = scrut[1][1]
        label = "step" if in_loop else "finish"
        self.labels[label] = self.labels.get(label, 0) + 1
        if self.labels[label] > 1:
            label += str(self.labels[label])
        if self.value_depth or self.cont_ty is None:
            self.refuse("a `match %s.state` inside a block that is used as a value" % p)
        if rest:
            xs = self.mods([b for _, b in arms], env)
            inner = lambda _env: self.ret(self.tup(xs))
            cty = self.tuple_ty(xs, env)
        else:
            inner = lambda _env: k(env)
            cty = self.cont_ty
        names = sorted(env, key=lambda x: env[x]["idx"])
        binders = self.world.binders(self.name) + " " + " ".join("(%s : %s)" % (x, coq_ty(env[x]["ty"])) for x in names if env[x]["ty"] != "table")
        actuals = self.world.actuals(self.name) + "".join(" " + x for x in names if env[x]["ty"] != "table")
        seen, lines, failed = [], [], []
        rty = None
        for pat, body in arms:
            if pat[0] == "pwild":
                v = "default"
            elif pat[0] == "pvariant" and len(pat[1]) == 2 and pat[1][0] == STATE and pat[1][1] in self.world.info["states"]:
                v = pat[1][1]
            else:
                self.refuse("arm pattern of a `match %s.state`" % p)
            if v in seen or "default" in seen:
                self.refuse("arm `%s` of a `match %s.state` is repeated or unreachable" % (v, p))
            seen.append(v)
            unit = "%s__%s_%s" % (self.name, label, v)
            try:
                if body[0] == "bad":
                    self.refuse(body[1])
                if body[1] is not None:
                    self.refuse("an arm that ends in an expression")
                saved = self.tmp
                self.tmp = 0
                text = self.with_cont_ty(cty, lambda: self.stmts(body[0], env, inner, in_loop, False))
                self.tmp = max(saved, self.tmp)
                self.defs.append((unit, "Definition %s_gen %s : %s :=\n%s." % (unit, binders, cty, ind(text))))
            except Refuse as e:
                self.arm_skips[unit] = str(e)
                failed.append(v)
            lines.append("| %s => %s_gen %s" % ("_" if v == "default" else v, unit, actuals))
        unit = "%s__%s" % (self.name, label)
        if failed:           # go on (the later units of the function are still wanted); the function itself is refused at the end
            msg = "arm%s %s of the `match %s.state` (%s) skipped" % ("s" if len(failed) > 1 else "", ", ".join(failed), p, label)
            self.arm_skips[unit] = msg
            self.deferred = self.deferred or msg
        else:
            self.defs.append((unit, "Definition %s_gen %s : %s :=\n  match fstate %s with\n%s\n  end." % (unit, binders, cty, p, ind("\n".join(lines)))))
        call = "%s_gen %s" % (unit, actuals)
        if rest:
            return self.bind_tuple(call, xs, again(env))
        return call

    def loop(self, s, env, again, in_loop):
        _, (a, b), it, body = s
        if in_loop:
            self.refuse("nested loop")
        if self.value_depth:
            self.refuse("a loop inside a block that is used as a value")
        if not (it[0] == "mcall" and it[2] == "char_indices" and not it[4] and it[3] is None):
            self.refuse("a `for` loop over something other than `<str>.char_indices()`")
        ps, st, ts = self.ex(it[1], env)
        if ts != "str" or ps:
            self.refuse("char_indices() on %s" % show(ts))
        if body[1] is not None:
            self.refuse("loop body ending in an expression")
        self.monad()
        xs = self.mods([body], env)
        for x in xs:
            self.rebind(x, env, "assignment in a loop")
        benv = self.declare(env, a, "usize", False, False)
        benv = self.declare(benv, b, "char", False, False)
        bt = self.with_cont_ty(self.tuple_ty(xs, env), lambda: self.stmts(body[0], benv, lambda _e: self.ret(self.tup(xs)), True, False))
        text = "for_chars (char_indices %s) (fun '(%s, %s) %s =>\n%s\n  ) %s" % (atom(st), a, b, self.pat(xs), ind(bt, 4), self.tup(xs))
        return self.bind_tuple(text, xs, again(env))

    # ---- the function's result position
    def result(self, e, env):
        if e[0] == "paren":
            return self.result(e[1], env)
        res = isinstance(self.rty, tuple) and self.rty[0] == "res"
        if res and e[0] == "call" and e[1] == "Ok" and len(e[2]) == 1:
            pre, t, te = self.ex(e[2][0], env, self.value_ty if self.value_ty in ("usize", "i32", "u16") else None)
            t = self.coerce(t, te, self.value_ty, "the result")
            return self.join(pre) + self.ret(self.pack(t))
        if res and e[0] == "call" and e[1] == "Err" and len(e[2]) == 1:
            pre, t, te = self.ex(e[2][0], env)
            if te != "err" or pre:
                self.refuse("Err(<%s>)" % show(te))
            return "FErr %s" % t
        if e[0] == "if" and valued(e):
            _, c, b1, b2 = e
            pc, ct, tc = self.ex(c, env)
            if tc != "bool" or pc or b2 is None:
                self.refuse("an `if` in result position with a condition of type %s / with effects / without else" % show(tc))
            t1 = self.stmts(b1[0], env, lambda env2: self.block_result(b1, env2), False, False)
            t2 = self.stmts(b2[0], env, lambda env2: self.block_result(b2, env2), False, False)
            return "if %s then\n%s\nelse\n%s" % (strip(ct), ind(t1), ind(t2))
        pre, t, te = self.ex(e, env, self.value_ty if self.value_ty in ("usize", "i32", "u16") else None)
        if isinstance(te, tuple) and te[0] == "pend":
            if not res:
                self.refuse("a Result in result position of a function that does not return one")
            pre, t, te = self.consume(pre, t, te, env)
        if self.value_ty is None:
            self.refuse("a value in result position of a unit function")
        t = self.coerce(t, te, self.value_ty, "the result")
        return self.join(pre) + self.ret(self.pack(t))

    def block_result(self, b, env):
        if b[1] is None:
            self.refuse("a branch in result position without a final expression")
        return self.result(b[1], env)

    def translate(self):
        w = self.world
        env = {}
        binders = [w.binders(self.name, body=True)]
        if self.selfkind is not None:
            self.counter += 1
            env["self"] = {"ty": "parser", "mut": True, "idx": self.counter}
            binders.append("(self : cfg)")
        for a, ty in self.params:
            env = self.declare(env, a, ty, False, True)
            if ty != "table":
                binders.append("(%s : %s)" % (a, coq_ty(ty)))
        body = self.body
        if body[1] is None:
            if self.value_ty is not None and not (body[0] and body[0][-1][0] == "ret"):
                self.refuse("the body has no result expression")
            k = lambda _env: self.ret(self.pack(None))
        else:
            k = lambda env2: self.result(body[1], env2)
        vt = None if self.value_ty is None else coq_ty(self.value_ty)
        pack = vt if self.selfkind is None else "cfg" if vt is None else "(%s * cfg)" % vt
        rty = "fres %s" % atom(pack) if self.mode == "fres" else strip(pack)
        self.cont_ty = rty
        text = self.stmts(body[0], env, k, False, True)
        if self.deferred:
            self.refuse(self.deferred)
        knot = w.knot_of.get(self.name) == self.name
        name = self.name + ("_body" if knot else "")
        self.defs.append((self.name, "Definition %s_gen %s : %s :=\n%s." % (name, " ".join(binders), rty, ind(text))))
        if knot:
            ps = [(a, ty) for a, ty in self.params if ty != "table"]
            if self.selfkind is not None or self.mode != "fres":
                self.refuse("the method that closes the recursion has a receiver or cannot fail")
            self.defs[-1] = (self.name, self.defs[-1][1] + "\n\nFixpoint %s_gen (O : oracles) (fuel : nat) %s {struct fuel} : %s :=\n"
                             "  match fuel with\n  | 0%%nat => FPanic\n  | S fuel' => %s_body_gen O (%s_gen O fuel') %s\n  end." % (
                                 self.name, " ".join("(%s : %s)" % (a, coq_ty(ty)) for a, ty in ps), rty, self.name, self.name,
                                 " ".join(a for a, _ in ps)))


# ------------------------------------------------------------------ the methods of the file, translated on demand
class World:
    def __init__(self, info, statics):
        self.info, self.statics = info, statics
        self.sigs, self.asts, self.skipped = {}, {}, {}
        self.done, self.emitted, self.active = {}, [], []
        self.units = []                       # every unit met, in order (methods, arms, dispatchers)
        for name, (head, body) in info["methods"].items():
            try:
                _, selfkind, params, rty = Parser(head).signature()
                self.sigs[name] = {"selfkind": selfkind, "params": params, "rty": rty}
                self.asts[name] = Parser([("op", "{")] + body + [("op", "}")]).block()
            except Refuse as e:
                self.skipped[name] = str(e)
        # the syntactic call graph, its cycles, and the method that closes each cycle (the first one without a receiver)
        self.calls = {n: sorted(calls_of(self.asts[n], set(info["methods"]), set())) for n in self.asts}
        reach = {n: set(self.calls[n]) for n in self.calls}
        changed = True
        while changed:
            changed = False
            for n in reach:
                for m in list(reach[n]):
                    new = reach.get(m, set()) - reach[n]
                    if new:
                        reach[n] |= new
                        changed = True
        self.reach = reach
        self.knot_of = {}
        for n in info["order"]:
            if n in reach and n in reach[n]:
                scc = [m for m in info["order"] if m in reach and m in reach[n] and n in reach[m]]
                statics_ = [m for m in scc if m in self.sigs and self.sigs[m]["selfkind"] is None]
                self.knot_of[n] = statics_[0] if statics_ else None
        self.fuel = {n: n not in self.knot_of and any(m in self.knot_of for m in reach.get(n, ())) for n in info["order"]}

    def rec_type(self, g):
        sig = self.sigs[g]
        ps = [coq_ty(t) for _, t in sig["params"] if t != "table"]
        if not (isinstance(sig["rty"], tuple) and sig["rty"][0] == "res"):
            raise Refuse("the method `%s` that closes the recursion does not return a Result<_, %s>" % (g, ERROR))
        return " -> ".join(ps + ["fres %s" % coq_ty(sig["rty"][1])])

    def binders(self, f, body=False):
        out = "(O : oracles)"
        g = self.knot_of.get(f)
        if f in self.knot_of:
            if g is None:
                raise Refuse("`%s` is on a recursion cycle none of whose methods is without a receiver" % f)
            if g not in self.sigs:
                raise Refuse("the method `%s` that closes the recursion is skipped (%s)" % (g, self.skipped.get(g)))
            out += " (rec_%s : %s)" % (g, self.rec_type(g))
        elif self.fuel.get(f):
            out += " (fuel : nat)"
        return out

    def actuals(self, f):
        if f in self.knot_of:
            return "O rec_%s" % self.knot_of[f]
        return "O fuel" if self.fuel.get(f) else "O"

    def call_head(self, m, caller):
        """`m_gen O ..` with the recursion parameter / fuel the callee takes, as the caller has them"""
        gm, gc = self.knot_of.get(m), self.knot_of.get(caller)
        if m in self.knot_of:
            if gc is not None and gc == gm:
                return "rec_%s" % m if m == gm else "%s_gen O rec_%s" % (m, gm)
            if caller in self.knot_of:
                raise Refuse("call of `%s` from another recursion cycle" % m)
            return "%s_gen O fuel" % m if m == gm else "%s_gen O (%s_gen O fuel)" % (m, gm)
        return "%s_gen O fuel" % m if self.fuel.get(m) else "%s_gen O" % m

    def sig(self, m, caller):
        if m in self.skipped and m not in self.sigs:
            raise Refuse("calls `%s`, which is skipped (%s)" % (m, self.skipped[m]))
        if m == self.knot_of.get(caller) or m in self.active:
            if m != self.knot_of.get(caller):
                raise Refuse("recursive call of `%s`, which does not close the cycle (that is `%s`)" % (m, self.knot_of.get(caller)))
            rty = self.sigs[m]["rty"]
            return dict(self.sigs[m], mode="fres")
        self.attempt(m)
        if m in self.skipped:
            raise Refuse("calls `%s`, which is skipped (%s)" % (m, self.skipped[m]))
        return self.done[m]

    def attempt(self, name):
        if name in self.done or name in self.skipped:
            return
        if name not in self.info["methods"]:
            self.skipped[name] = "no such method in `impl %s`" % PARSER
            return
        self.active.append(name)
        sig = self.sigs[name]
        fn = None
        try:
            modes = ["fres"] if isinstance(sig["rty"], tuple) and sig["rty"][0] == "res" else ["plain", "fres"]
            for mode in modes:
                fn = Fn(name, sig["selfkind"], sig["params"], sig["rty"], self.asts[name], self, mode)
                try:
                    fn.translate()
                    break
                except NeedMonad:
                    if mode == "fres":
                        raise Refuse("internal: effect in an fres translation")
                    continue
            self.done[name] = dict(sig, mode=fn.mode)
        except Refuse as e:
            self.skipped[name] = str(e)
        finally:
            self.active.pop()
            if fn is not None:
                for unit, text in fn.defs:
                    self.emitted.append((unit, text))
                for unit in list(fn.arm_skips) :
                    self.skipped[unit] = fn.arm_skips[unit]
                # arms and dispatchers of a function that failed later are kept; record what exists
                labels = [u for u, _ in fn.defs]
                for u in labels + list(fn.arm_skips):
                    if u not in self.units:
                        self.units.append(u)
                if name not in self.units:
                    self.units.append(name)


def q(names):
    return "[" + "; ".join('"%s"' % n for n in names) + "]%string"


def translate():
    path = os.path.join(REPO, "src", "formula.rs")
    src = open(path, encoding="utf-8").read()
    info = file_structure(src)
    statics = {"PERIODIC_TABLE"} if re.search(r"use crate::table::(?:\{[^}]*\bPERIODIC_TABLE\b[^}]*\}|PERIODIC_TABLE);", src) else set()
    world = World(info, statics)
    out = ["(* GENERATED by tools/gen_formula.py from src/formula.rs -- do not edit *)",
           "From Coq Require Import ZArith NArith Arith List Bool.", "From CE Require Import Str Comp Formula ImpS.",
           "Import ListNotations.", "",
           "(* enum %s / enum %s: every variant, in source order, as constructors of the model's st / err *)" % (STATE, ERROR)]
    alien = [v for v in info["states"] if v not in MODEL_STATES] + [v for v in info["errors"] if v not in MODEL_ERRORS]
    if alien:
        world.skipped["enums"] = "variant%s %s: not a constructor of the model's st / err" % ("s" if len(alien) > 1 else "", ", ".join(alien))
    else:
        out.append("Definition %s_all_gen : list st := [%s]." % (STATE, "; ".join(info["states"])))
        out.append("Definition %s_all_gen : list err := [%s]." % (ERROR, "; ".join(info["errors"])))
    units = ["enums"]
    if info.get("state_default") in MODEL_STATES and info.get("state_derive_default") and info.get("parser_derive_default"):
        out.append("(* #[default] and #[derive(Default)] *)")
        out.append("Definition %s_default_gen : st := %s." % (STATE, info["state_default"]))
        z = {"usize": "0%nat", "i32": "0%Z", "state": "%s_default_gen" % STATE}
        out.append("Definition %s_default_gen : cfg :=\n  {| %s |}." % (PARSER, "; ".join("%s := %s" % (a, z[t]) for a, _, t in FIELDS.values())))
    else:
        world.skipped["default"] = "no #[derive(Default)] on the struct / the state enum, or no #[default] variant"
    units.append("default")
    out.append("")
    for name in METHODS + FREE:
        world.attempt(name)
    for unit, text in world.emitted:
        out.append(text)
        out.append("")
    units += world.units
    have = set(u for u, _ in world.emitted) | set(u for u in ("enums", "default") if u not in world.skipped)
    out.append("(* what the translator did with the units it was asked for *)")
    out.append("From Coq Require Import String.")
    out.append("Definition formula_gen_translated : list string := %s." % q([u for u in units if u in have]))
    out.append("Definition formula_gen_skipped : list string := %s." % q([u for u in units if u not in have]))
    return "\n".join(out) + "\n", world, units, have


# ------------------------------------------------------------------ which ties of FormulaTie.v still hold
def check_ties(world, units, have):
    text = open(TIE, encoding="utf-8").read()
    blocks, common, pos = {}, [], 0
    for m in re.finditer(r"\(\* BEGIN TIE (\w+)(?: \(needs: ([\w ]*)\))? \*\)\n(.*?)\(\* END TIE \1 \*\)\n", text, re.S):
        common.append(text[pos:m.start()])
        common.append("@@%s@@" % m.group(1))
        blocks[m.group(1)] = ((m.group(2) or "").split(), m.group(3))
        pos = m.end()
    common.append(text[pos:])

    def closure(n, acc):
        for d in blocks[n][0]:
            if d in blocks and d not in acc:
                closure(d, acc)
        if n not in acc:
            acc.append(n)
        return acc
    run = lambda args, cwd: subprocess.run(args, cwd=cwd, stdout=subprocess.PIPE, stderr=subprocess.STDOUT, universal_newlines=True)
    for f in ("model/ImpS.v", "gen/FormulaGen.v"):
        r = run(["coqc", "-Q", ".", "CE", "-w", "-notation-overridden", f], COQ)
        if r.returncode != 0:
            print("tie check: %s does not compile\n%s" % (f, r.stdout))
            return 1
    bad = 0
    names = list(units) + [b for b in blocks if b not in units]
    with tempfile.TemporaryDirectory() as tmp:
        for n in names:
            if n in units and n not in have:
                print("tie %s: SKIPPED (%s)" % (n, world.skipped.get(n, "?")))
                bad += 1
                continue
            if n not in blocks:
                print("tie %s: no block in FormulaTie.v" % n)
                bad += 1
                continue
            keep = closure(n, [])
            lacking = [d for d in keep if d not in have and d not in EXTRA_BLOCKS]
            if lacking:
                print("tie %s: SKIPPED (the unit `%s` was not produced%s)" % (
                    n, lacking[0], ": " + world.skipped[lacking[0]] if lacking[0] in world.skipped else ""))
                bad += 1
                continue
            body = "".join(c if not c.startswith("@@") else (blocks[c[2:-2]][1] if c[2:-2] in keep else "") for c in common)
            path = os.path.join(tmp, "FormulaTie_%s.v" % n)
            open(path, "w").write(body)
            r = run(["coqc", "-Q", COQ, "CE", "-w", "-notation-overridden", path], tmp)
            if r.returncode == 0:
                print("tie %s: OK" % n)
            else:
                bad += 1
                msg = [l for l in r.stdout.splitlines() if l.strip()]
                print("tie %s: FAILED (%s)" % (n, " | ".join(msg[-3:])[:300]))
    return 1 if bad else 0


def main():
    try:
        text, world, units, have = translate()
    except (Structure, OSError) as e:
        print("gen_formula: refused: %s" % e)
        return 3
    old = open(OUT).read() if os.path.exists(OUT) else None
    if old != text:
        open(OUT, "w").write(text)
    for u in units:
        if u not in have:
            print("skipped %s: %s" % (u, world.skipped.get(u, "?")))
    print("gen_formula: %d units translated, %d skipped%s" % (
        len([u for u in units if u in have]), len([u for u in units if u not in have]), "" if old == text else " [rewritten]"))
    if "--ties" in sys.argv[1:]:
        return check_ties(world, units, have)
    return 0


if __name__ == "__main__":
    sys.exit(main())
