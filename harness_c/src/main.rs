//! C17: drives the real `extern "C"` functions of bindings/c in a child process.
//!   ce_cbind run <seed> <n> [maxlen]   generates call sequences; each is executed by `ce_cbind child` (this binary again)
//!   ce_cbind child                     reads one call per line on stdin, prints one observation per line
use c_chemical_elements::{free_chemical_composition, parse_formula, CChemicalComposition};
use serde_json::{json, Value};
use std::ffi::CString;
use std::io::{BufRead, Write};
use std::os::raw::c_char;
use std::process::{Command, Stdio};

// Allocation accounting for the child: bytes / blocks live in the process, sampled immediately before and after each
// call into the binding (nothing of the driver's own allocates in between), so that a block the library keeps without
// handing out a handle -- a leak no later call can see -- shows up without a sanitizer.
use std::alloc::{GlobalAlloc, Layout, System};
use std::sync::atomic::{AtomicI64, Ordering};
static LIVE_BYTES: AtomicI64 = AtomicI64::new(0);
static LIVE_BLOCKS: AtomicI64 = AtomicI64::new(0);
struct Counting;
unsafe impl GlobalAlloc for Counting {
    unsafe fn alloc(&self, l: Layout) -> *mut u8 {
        let p = System.alloc(l);
        if !p.is_null() { LIVE_BYTES.fetch_add(l.size() as i64, Ordering::Relaxed); LIVE_BLOCKS.fetch_add(1, Ordering::Relaxed); }
        p
    }
    unsafe fn dealloc(&self, p: *mut u8, l: Layout) {
        System.dealloc(p, l);
        LIVE_BYTES.fetch_sub(l.size() as i64, Ordering::Relaxed); LIVE_BLOCKS.fetch_sub(1, Ordering::Relaxed);
    }
    unsafe fn realloc(&self, p: *mut u8, l: Layout, new: usize) -> *mut u8 {
        let q = System.realloc(p, l, new);
        if !q.is_null() { LIVE_BYTES.fetch_add(new as i64 - l.size() as i64, Ordering::Relaxed); }
        q
    }
}
#[global_allocator]
static ALLOC: Counting = Counting;
fn live() -> (i64, i64) { (LIVE_BYTES.load(Ordering::Relaxed), LIVE_BLOCKS.load(Ordering::Relaxed)) }
/// evaluate one call into the binding and report what it left allocated
macro_rules! ffi { ($rec:ident, $e:expr) => {{ let (b0, k0) = live(); let r = $e; let (b1, k1) = live(); $rec["dbytes"] = json!(b1 - b0); $rec["dblocks"] = json!(k1 - k0); r }}; }

struct Rng(u64);
impl Rng {
    fn next(&mut self) -> u64 {
        self.0 = self.0.wrapping_add(0x9E3779B97F4A7C15);
        let mut z = self.0;
        z = (z ^ (z >> 30)).wrapping_mul(0xBF58476D1CE4E5B9);
        z = (z ^ (z >> 27)).wrapping_mul(0x94D049BB133111EB);
        z ^ (z >> 31)
    }
    fn below(&mut self, n: u64) -> u64 { self.next() % n }
    fn pick<'a, T>(&mut self, xs: &'a [T]) -> &'a T { &xs[self.below(xs.len() as u64) as usize] }
}

fn hexf(x: f64) -> String {
    if x.is_nan() { return "nan".into(); }
    if x.is_infinite() { return if x > 0.0 { "infinity".into() } else { "neg_infinity".into() }; }
    let bits = x.to_bits();
    let sign = if bits >> 63 == 1 { "-" } else { "" };
    let exp = ((bits >> 52) & 0x7ff) as i64;
    let man = bits & ((1u64 << 52) - 1);
    if exp == 0 { if man == 0 { return format!("{}0x0p+0", sign); } return format!("{}0x0.{:013x}p-1022", sign, man); }
    format!("{}0x1.{:013x}p{:+}", sign, man, exp - 1023)
}

const PROBES: [&str; 6] = ["C", "H", "O", "C[13]", "Cl", "N"];

fn cstr(bytes: &[u8]) -> CString { CString::new(bytes.to_vec()).unwrap() }

fn child() {
    let stdin = std::io::stdin();
    let mut handles: Vec<*mut CChemicalComposition> = Vec::new();
    let out = std::io::stdout();
    {   // initialise the lazily built periodic table (and anything else the first call sets up once) before measuring
        let s = cstr(b"C[13]2H4O"); let mut p: *mut CChemicalComposition = std::ptr::null_mut();
        if parse_formula(s.as_ptr() as *mut c_char, &mut p) == 0 && !p.is_null() {
            let k = cstr(b"C[13]"); unsafe { (*p).get(k.as_ptr() as *mut c_char); (*p).mass(); }
            free_chemical_composition(p);
        }
    }
    for line in stdin.lock().lines() {
        let line = line.unwrap();
        let v: Value = serde_json::from_str(&line).unwrap();
        let op = v["op"].as_str().unwrap();
        let h = |k: &str| handles[v[k].as_u64().unwrap() as usize];
        let bytes: Vec<u8> = v["bytes"].as_array().map(|a| a.iter().map(|x| x.as_u64().unwrap() as u8).collect()).unwrap_or_default();
        let n = v["n"].as_i64().unwrap_or(0) as i32;
        let mut rec = json!({"op": op});
        match op {
            "new" => { let mut p: *mut CChemicalComposition = 0xdead as *mut _; let code = ffi!(rec, CChemicalComposition::new(&mut p)); rec["code"] = json!(code); rec["null"] = json!(p.is_null()); if !p.is_null() { handles.push(p); rec["handle"] = json!(handles.len() - 1); } }
            "parse" => { let s = cstr(&bytes); let mut p: *mut CChemicalComposition = 0xdead as *mut _; let code = ffi!(rec, parse_formula(s.as_ptr() as *mut c_char, &mut p)); rec["code"] = json!(code); rec["null"] = json!(p.is_null()); if !p.is_null() { handles.push(p); rec["handle"] = json!(handles.len() - 1); } }
            "copy" => { let mut p: *mut CChemicalComposition = 0xdead as *mut _; let code = ffi!(rec, unsafe { (*h("h")).copy(&mut p) }); rec["code"] = json!(code); rec["null"] = json!(p.is_null()); if !p.is_null() { handles.push(p); rec["handle"] = json!(handles.len() - 1); } }
            "get" => { let s = cstr(&bytes); let r = ffi!(rec, unsafe { (*h("h")).get(s.as_ptr() as *mut c_char) }); rec["value"] = json!(r); }
            "set" => { let s = cstr(&bytes); let code = ffi!(rec, unsafe { (*h("h")).set(s.as_ptr() as *mut c_char, n) }); rec["code"] = json!(code); }
            "increment" => { let s = cstr(&bytes); let code = ffi!(rec, unsafe { (*h("h")).increment(s.as_ptr() as *mut c_char, n) }); rec["code"] = json!(code); }
            "add" => { let code = ffi!(rec, unsafe { (*h("h")).add(&*h("g")) }); rec["code"] = json!(code); }
            "subtract" => { let code = ffi!(rec, unsafe { (*h("h")).subtract(&*h("g")) }); rec["code"] = json!(code); }
            "scale" => { let code = ffi!(rec, unsafe { (*h("h")).scale(n) }); rec["code"] = json!(code); }
            "mass" => { let m = ffi!(rec, unsafe { (*h("h")).mass() }); rec["mass"] = json!(hexf(m)); }
            "free" => { let code = ffi!(rec, free_chemical_composition(h("h"))); rec["code"] = json!(code); let i = v["h"].as_u64().unwrap() as usize; handles[i] = std::ptr::null_mut(); }
            _ => {}
        }
        // snapshot of every live handle through the binding itself
        let snap: Vec<Value> = handles.iter().map(|p| if p.is_null() { Value::Null } else {
            let gets: Vec<i32> = PROBES.iter().map(|s| { let c = cstr(s.as_bytes()); unsafe { (**p).get(c.as_ptr() as *mut c_char) } }).collect();
            json!({"mass": hexf(unsafe { (**p).mass() }), "gets": gets}) }).collect();
        rec["snap"] = json!(snap);
        let mut o = out.lock();
        writeln!(o, "{}", rec).unwrap();
        o.flush().unwrap();
    }
}

fn gen_bytes(rng: &mut Rng, formula: bool) -> Vec<u8> {
    let f_ok = ["H2O", "C6H12O6", "C[13]2H4", "(CH2)3O", "Cl2", "NaCl", "C2(H3)2", "H", "CO2", "N2O4H[2]"];
    let f_bad = ["", "Xx", "H2O)", "(H", "C[99]", "h2o", "H 2", "C[13", "H9999999999", "é", "C[1x]2", "()", "C[99]O", "CH3C[99]H3", "(H[7]O)2", "O[15](H2)2", "C[99]2O", "S[35]", "C[+13]",
                 " H2O", "H2O ", "H2O\n", "\tC6H12O6", " ", "H2O\r\n"];
    let s_ok = ["C", "H", "O", "N", "Cl", "C[13]", "H[2]", "Cl[37]", "Na", "C[012]"];
    let s_bad = ["", "X", "C[", "C[99]", "c", "C[13]]", "é", "C[x]", "C[70000]", "C[0]"];
    let mut b: Vec<u8> = if formula { if rng.below(3) == 0 { rng.pick(&f_bad).as_bytes().to_vec() } else { rng.pick(&f_ok).as_bytes().to_vec() } }
                         else { if rng.below(3) == 0 { rng.pick(&s_bad).as_bytes().to_vec() } else { rng.pick(&s_ok).as_bytes().to_vec() } };
    if rng.below(10) == 0 { let pos = rng.below(b.len() as u64 + 1) as usize; b.insert(pos, *rng.pick(&[0xffu8, 0xc3, 0x80, 0xf0])); }  // not UTF-8
    b
}

fn main() {
    let args: Vec<String> = std::env::args().collect();
    if args.get(1).map(|s| s.as_str()) == Some("child") { child(); return; }
    let seed: u64 = args.get(2).and_then(|s| s.parse().ok()).unwrap_or(0);
    let n: usize = args.get(3).and_then(|s| s.parse().ok()).unwrap_or(50);
    let maxlen: u64 = args.get(4).and_then(|s| s.parse().ok()).unwrap_or(40);
    let mut rng = Rng(seed ^ 0xC17);
    println!("{}", json!({"probes": PROBES}));
    let exe = std::env::current_exe().unwrap();
    for id in 0..n {
        // a contract-following sequence, generated interactively: only live handles (as reported by the library),
        // each freed once, all freed at the end
        let len = 1 + rng.below(maxlen);
        let mut ch = Command::new(&exe).arg("child").stdin(Stdio::piped()).stdout(Stdio::piped()).stderr(Stdio::null()).spawn().unwrap();
        let mut si = ch.stdin.take().unwrap();
        let mut so = std::io::BufReader::new(ch.stdout.take().unwrap());
        let mut ops: Vec<Value> = Vec::new();
        let mut obs: Vec<Value> = Vec::new();
        let mut live: Vec<usize> = Vec::new();
        let mut bound: Vec<i64> = Vec::new();
        let mut dead = false;
        let lossy = |b: &[u8]| String::from_utf8_lossy(b).chars().map(|c| c as u32).collect::<Vec<u32>>();
        let mut step = 0u64;
        loop {
            let closing = step >= len;
            if closing && live.is_empty() { break; }
            let op: Value = if closing { json!({"op": "free", "h": live[0]}) } else {
                let w = rng.below(100);
                if live.is_empty() || w < 8 { json!({"op": "new"}) } else {
                    let h = *rng.pick(&live);
                    match w {
                        8..=19 => { let b = gen_bytes(&mut rng, true); json!({"op": "parse", "bytes": b, "text": lossy(&b)}) }
                        20..=27 => json!({"op": "copy", "h": h}),
                        28..=39 => { let b = gen_bytes(&mut rng, false); json!({"op": "get", "h": h, "bytes": b, "text": lossy(&b)}) }
                        40..=51 => { let b = gen_bytes(&mut rng, false); let k = if rng.below(5) == 0 { 0 } else { rng.below(400) as i64 - 100 }; bound[h] += k.abs(); json!({"op": "set", "h": h, "bytes": b, "text": lossy(&b), "n": k}) }
                        52..=61 => { let b = gen_bytes(&mut rng, false); let k = if rng.below(8) == 0 { 0 } else { rng.below(400) as i64 - 100 }; bound[h] += k.abs(); json!({"op": "increment", "h": h, "bytes": b, "text": lossy(&b), "n": k}) }
                        62..=71 => { let g = *rng.pick(&live); if g != h && bound[h] + bound[g] < 100_000_000 { bound[h] += bound[g]; json!({"op": "add", "h": h, "g": g}) } else { json!({"op": "mass", "h": h}) } }
                        72..=79 => { let g = *rng.pick(&live); if g != h && bound[h] + bound[g] < 100_000_000 { bound[h] += bound[g]; json!({"op": "subtract", "h": h, "g": g}) } else { json!({"op": "mass", "h": h}) } }
                        80..=87 => { let k = rng.below(9) as i64 - 3; if bound[h] * k.abs().max(1) < 100_000_000 { bound[h] *= k.abs().max(1); json!({"op": "scale", "h": h, "n": k}) } else { json!({"op": "mass", "h": h}) } }
                        88..=93 => json!({"op": "mass", "h": h}),
                        _ => json!({"op": "free", "h": h}),
                    }
                }
            };
            step += 1;
            ops.push(op.clone());
            if writeln!(si, "{}", op).is_err() { dead = true; break; }
            let _ = si.flush();
            let mut line = String::new();
            match so.read_line(&mut line) {
                Ok(0) | Err(_) => { dead = true; break; }
                Ok(_) => {
                    let r: Value = serde_json::from_str(line.trim()).unwrap_or(json!({"garbled": line}));
                    if let Some(hh) = r.get("handle").and_then(|x| x.as_u64()) {
                        live.push(hh as usize);
                        while bound.len() <= hh as usize { bound.push(0); }
                        bound[hh as usize] = match op["op"].as_str().unwrap() { "parse" => 20000, "copy" => bound[op["h"].as_u64().unwrap() as usize], _ => 0 };
                    }
                    if op["op"] == "free" { let hv = op["h"].as_u64().unwrap() as usize; live.retain(|x| *x != hv); }
                    obs.push(r);
                }
            }
        }
        drop(si);
        let status = ch.wait().unwrap();
        println!("{}", json!({"id": id, "ops": ops, "obs": obs, "died": dead, "exit": status.code(), "status": format!("{:?}", status)}));
    }
}
