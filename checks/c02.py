"""C02 -- reported mass always equals the mass of the current contents."""
from collections import Counter
from tools.vlib import *
from checks import complib

THEOREMS = ["C02_step_inv", "C02_mass_coherent", "C02_mass_is_sum", "C02_mass_perm", "C02_mass_additive",
            "C02_mass_linear", "C02_nonvacuous"]
Q = "let '(a,b,c,d) := q in"
EVALS = ["concat (map (fun q => %s map h_id (filter (fun h => negb (hist_tie pool probes h)) [a;b;c;d])) cases)" % Q,
         "concat (map (fun q => %s map h_id (filter (fun h => negb (c02_holds pool h)) [a;b;c;d])) cases)" % Q,
         "concat (map (fun q => %s map h_id (filter hist_nontrivial [a])) cases)" % Q]


def summarize(run, recs, mode):
    ops = Counter(o[1][0] for r in recs for o in r["ops"])
    lens = Counter(min(len(r["ops"]) // 5 * 5, 40) for r in recs)
    steps = sum(len(r["ops"]) for r in recs)
    cached = sum(1 for r in recs for o in r["fams"]["VecDirect"] if o["cached"])
    panics = sum(1 for r in recs for o in r["fams"]["VecDirect"] if o["p"])
    run.cov.update({"evaluations": len(recs) * 4, "steps_observed": steps * 4,
                    "rule": "random operation histories (mode %s) over three registers, applied in lock-step to ChemicalCompositionVec, "
                            "ChemicalCompositionMap, ChemicalComposition::Vec and ::Map; keys from a pool of 14 (C, C[12], C[13], H, H[2], O, Cl, N, "
                            "Cl[37], and Ar, Ca, H+, Tc, Pm which collide pairwise on mass number / most abundant isotope); after every step the target register's public reads, cache flag, mass and calc_mass are recorded; "
                            "non-trivial = history of at least 3 operations; histories are distinct generator draws" % mode,
                    "op_histogram": dict(ops), "history_length_histogram": {str(k): v for k, v in sorted(lens.items())},
                    "steps_with_populated_cache": cached, "steps_that_panicked": panics})
    run.samples = [{"id": r["id"], "ops": r["ops"][:8]} for r in recs[:4]]


def run(run, args):
    n, maxlen = (100, 24) if run.tier == "quick" else (1200, 40)
    n *= run.scale
    head, recs = complib.run_comp(run, "c02", n, maxlen)
    res, errors = complib.eval_hists(run, head, recs, EVALS)
    summarize(run, recs, "c02")
    run.cov["distinct_nontrivial"] = len(set(res[2]))
    run.cov["traces_validated_against_impl"] = len(recs) * 4 - len(res[0])
    by_id = {r["id"]: r for r in recs}
    fams = ["VecDirect", "MapDirect", "EnumVec", "EnumMap"]
    run.oblige("case files evaluate", not errors, errors[0][1][-300:] if errors else "")
    run.oblige("correspondence: model = implementation after every step, all four families", not res[0], "%d histories differ" % len(res[0]))
    run.oblige("mass = calc_mass = exact sum on every implementation observation", not res[1], "")
    broken = standard_proof_obligations(run, "C02", THEOREMS)
    broken += source_corollaries(run, "C02s", ['C02s_invariant_is_source', 'C02s_invariant_is_source_map', 'C02s_list_mutators', 'C02s_map_mutators', 'C02s_list_coherent', 'C02s_map_coherent', 'C02s_enum_coherent', 'C02s_add_ref', 'C02s_mul_val'], ('comp', 'props'))
    # floating-point level: calc_mass as an fma chain in rounded arithmetic, and its binary64 instance (Flocq's Bfma)
    broken += standard_proof_obligations(run, "C02f", ["C02_calc_mass_chain", "C02_mass_rounded", "C02_binary64_std_fma", "C02_mass_binary64",
                                                       "C02_float_nonvacuous"], allowed_axioms=STD_FLOAT_AXIOMS)

    def case(hid):
        r = by_id[hid // 4]
        return {"history_id": hid // 4, "family": fams[hid % 4], "ops": r["ops"], "observations": r["fams"][fams[hid % 4]]}
    if res[1]:
        violation(run, {"failing_input": case(res[1][0]), "what": "after some step mass() differs from calc_mass() or from the exact sum "
                        "of count*mass over the observed entries", "all_failing": res[1][:40]})
    if errors:
        violation(run, {"broken": "case file does not evaluate", "detail": errors[0][1]}, nofail=True)
    if res[0]:
        violation(run, {"broken": "correspondence model/implementation", "tie_breaking_case": case(res[0][0]), "all": res[0][:40]}, nofail=True)
    if broken:
        violation(run, {"broken": broken[0][0], "detail": broken[0][1], "all_broken": [b[0] for b in broken]}, nofail=True)
    run.finish(0)
    print("C02 ok: %d histories x 4 families, %d obligations" % (len(recs), len(run.obligations)))
