"""C05 -- formula parsing is total: malformed text yields an error value, never a panic."""
from collections import Counter
from tools.vlib import *
from checks import formlib

THEOREMS = ["C05_no_panic", "C05_sound", "C05_table_ok", "C05_nonvacuous"]


def gather(run, plan):
    recs = []
    for mode, n, base in plan:
        r, e = formlib.harness_cases(mode, run.seed, n, base)
        if r is None:
            violation(run, {"broken": "harness `formula %s` failed" % mode, "detail": e[-2000:]}, nofail=True)
        recs += r
    return recs


def decide(run, prop, recs, res, errors, theorems, which):
    by_id = {r["id"]: r for r in recs}
    outs = Counter()
    for r in recs:
        o = r["outs"][0]
        outs["panic" if o == "panic" else ("ok" if "ok" in o else "err%d" % o["err"])] += 1
    lens = Counter(min(len(r["s"]), 40) // 4 * 4 for r in recs)
    run.cov.update({"evaluations": len(recs), "distinct_nontrivial": len(set(res[4])),
                    "modes": dict(Counter(r["mode"] for r in recs)), "outcome_histogram": dict(outs),
                    "string_length_histogram": {str(k): v for k, v in sorted(lens.items())},
                    "entry_points_per_string": 8, "error_kind_differences_model_vs_impl": len(res[3]),
                    "tie_mismatches": len(res[0]), "traces_validated_against_impl": len(recs) - len(res[0])})
    run.samples = [{"s": r["s"], "outs": r["outs"]} for r in recs[200:206]] + [{"s": r["s"], "outs": r["outs"]} for r in recs[-3:]]
    run.oblige("case files evaluate", not errors, errors[0][1][-300:] if errors else "")
    run.oblige("correspondence: model parser = all 8 entry points (outcome class and entries) on every string", not res[0], "%d differ" % len(res[0]))
    bad = res[1] if which == "c05" else res[2]
    run.oblige("specification holds on every implementation outcome", not bad, "")
    broken = standard_proof_obligations(run, prop, theorems)
    # the same theorems about the translation of the current formula.rs (through proofs/FormulaTie.v), when that tie stands
    if which == "c05":
        broken += source_corollaries(run, "C05s", ["C05s_no_panic", "C05s_no_panic_entries", "C05s_sound", "C05s_sound_entries", "C05s_fuel_needed", "C05s_nonvacuous"], ("formula",))
    else:
        broken += source_corollaries(run, "C01s", ["C01s_parse_complete", "C01s_parse_complete_entries", "C01s_nonvacuous"], ("formula",))
    if bad:
        violation(run, {"failing_input": by_id[bad[0]],
                        "what": "an entry point panicked, accepted text that is not a well-formed formula, rejected a well-formed one, or returned "
                                "a composition other than the denoted one" if which == "c05" else
                                "a grammar-generated formula did not parse to exactly the atoms it denotes through every entry point",
                        "all_failing_ids": bad[:40]})
    if errors:
        violation(run, {"broken": "case file does not evaluate", "detail": errors[0][1]}, nofail=True)
    if res[0]:
        violation(run, {"broken": "correspondence model/implementation", "tie_breaking_case": by_id[res[0][0]], "all": res[0][:40]}, nofail=True)
    if broken:
        violation(run, {"broken": broken[0][0], "detail": broken[0][1], "all_broken": [b[0] for b in broken]}, nofail=True)
    run.finish(0)
    print("%s ok: %d strings x 8 entry points, %d obligations" % (prop, len(recs), len(run.obligations)))


def run(run, args):
    formlib.prepare(run)
    plan = ([("exh", 4, 0), ("keys", 0, 5000000), ("rand", 4000 * run.scale, 10000000)] if run.tier == "quick"
            else [("exh", 5, 0), ("keys", 0, 5000000), ("rand", 60000 * run.scale, 10000000)])
    recs = gather(run, plan)
    res, errors = formlib.evaluate("C05", recs, shard=3000)
    run.cov["rule"] = ("every string up to length %d over the 14-character alphabet {C l H X e 2 0 [ ] ( ) space e-acute arabic-indic-3} (exhaustive), "
                       "every table key (pseudo-elements included) alone, grouped, counted, bracketed, case-folded and next to C/H, plus random strings and one/two-edit mutations (delete, insert, duplicate, transpose, replace; junk incl. superscript-2 and "
                       "a 4-byte digit) of grammar-generated formulas; each through 8 entry points; non-trivial = parsed to >= 2 keys or length > 3"
                       % plan[0][1])
    run.cov["exhaustive"] = False
    sweep(run, recs, res)
    decide(run, "C05", recs, res, errors, THEOREMS, "c05")


def sweep(run, recs, res):
    """The same verdict, extracted to OCaml, over every string of a longer length; cross-checked against vm_compute on the short ones."""
    ok, log = formlib.build_extracted()
    run.oblige("extracted evaluator builds (Extraction of FormulaCheck verdict, ExtrOcamlBasic only)", ok, log[-400:] if not ok else "")
    if not ok:
        violation(run, {"broken": "extraction of the formula model", "detail": log}, nofail=True)
    top = 5 if run.tier == "quick" else 7
    jobs = [(0, 4)] + [(k, n) for n in range(5, top + 1) for k in range(1, 15)]
    total, tie, holds, kind, err = formlib.extracted_sweep(jobs)
    run.oblige("extracted sweep ran", not err, err)
    if err:
        violation(run, {"broken": "extracted sweep", "detail": err}, nofail=True)
    by_id = {r["id"]: r for r in recs}
    vm_tie = {by_id[i]["s"] for i in res[0] if by_id[i]["mode"] == "exh" and len(by_id[i]["s"]) <= 4}
    vm_holds = {by_id[i]["s"] for i in res[1] if by_id[i]["mode"] == "exh" and len(by_id[i]["s"]) <= 4}
    ex_tie = {r["s"] for r in tie if len(r["s"]) <= 4}
    ex_holds = {r["s"] for r in holds if len(r["s"]) <= 4}
    run.oblige("extracted evaluator and vm_compute give the same verdicts on every string of length <= 4",
               vm_tie == ex_tie and vm_holds == ex_holds, "tie %d/%d holds %d/%d" % (len(vm_tie), len(ex_tie), len(vm_holds), len(ex_holds)))
    run.cov["extracted_sweep"] = {"strings": total, "max_length_exhaustive": top, "tie_mismatches": len(tie), "spec_failures": len(holds),
                                  "error_kind_differences": kind, "shards": len(jobs)}
    run.cov["rule"] += "; additionally EVERY string of length <= %d over that alphabet (%d strings) judged by the extracted evaluator" % (top, total)
    run.oblige("specification holds on every implementation outcome of the extracted sweep", not holds, "%d fail" % len(holds))
    run.oblige("correspondence on the extracted sweep", not tie, "%d differ" % len(tie))
    if holds:
        violation(run, {"failing_input": holds[0], "found_by": "extracted exhaustive sweep",
                        "what": "an entry point panicked, accepted text that is not a well-formed formula, rejected a well-formed one, or returned "
                                "a composition other than the denoted one", "all_failing": [h["s"] for h in holds[:40]]})
    if vm_tie != ex_tie or vm_holds != ex_holds:
        violation(run, {"broken": "extracted evaluator disagrees with vm_compute", "only_vm": sorted(vm_tie ^ ex_tie)[:20], "holds": sorted(vm_holds ^ ex_holds)[:20]}, nofail=True)
    if tie:
        violation(run, {"broken": "correspondence model/implementation (extracted sweep)", "tie_breaking_case": tie[0], "all": [t["s"] for t in tie[:40]]}, nofail=True)
