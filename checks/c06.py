"""C06 -- list-backed and map-backed compositions are observationally identical."""
from tools.vlib import *
from checks import complib
from checks.c02 import summarize, Q

THEOREMS = ["C06_step_sim", "C06_observers", "C06_mass_agrees", "C06_plain_symbol", "C06_inc_str_touches_one_key",
            "C06_conversions", "C06_eq", "C06_table_ok", "C06_nonvacuous"]
EVALS = ["concat (map (fun q => %s map h_id (filter (fun h => negb (hist_tie pool probes h)) [a;b;c;d])) cases)" % Q,
         "concat (map (fun q => %s if c06_holds pool probes a b c d then [] else [h_id a]) cases)" % Q,
         "concat (map (fun q => %s map h_id (filter (fun h => negb (c06_reads pool probes h)) [a;b;c;d])) cases)" % Q,
         "concat (map (fun q => %s map h_id (filter hist_nontrivial [a])) cases)" % Q]


def run(run, args):
    n, maxlen = (100, 20) if run.tier == "quick" else (1200, 40)
    n *= run.scale
    head, recs = complib.run_comp(run, "c06", n, maxlen)
    res, errors = complib.eval_hists(run, head, recs, EVALS)
    summarize(run, recs, "c06")
    run.cov["distinct_nontrivial"] = len(set(res[3]))
    run.cov["traces_validated_against_impl"] = len(recs) * 4 - len(res[0])
    run.cov["probe_strings"] = head["probes"]
    by_id = {r["id"]: r for r in recs}
    fams = ["VecDirect", "MapDirect", "EnumVec", "EnumMap"]
    run.oblige("case files evaluate", not errors, errors[0][1][-300:] if errors else "")
    run.oblige("correspondence: model = implementation after every step, all four families", not res[0], "%d histories differ" % len(res[0]))
    run.oblige("the four families are indistinguishable after every step", not res[1], "")
    run.oblige("every read returns the count of the entry the key/text denotes, 0 when absent", not res[2], "")
    broken = standard_proof_obligations(run, "C06", THEOREMS)
    broken += source_corollaries(run, "C06s", ['C06s_observers', 'C06s_str_observers', 'C06s_mutators', 'C06s_forms_agree'], ('comp', 'props'))

    def case(hid, both=False):
        r = by_id[hid // 4]
        d = {"history_id": hid // 4, "ops": r["ops"]}
        if both:
            d["observations"] = r["fams"]
        else:
            d["family"] = fams[hid % 4]
            d["observations"] = r["fams"][fams[hid % 4]]
        return d
    if res[1]:
        violation(run, {"failing_input": case(res[1][0], True), "what": "the same operations leave the families distinguishable through the public API",
                        "all_failing": res[1][:40]})
    if res[2]:
        violation(run, {"failing_input": case(res[2][0]), "what": "a read accessor returned something other than the denoted entry's count",
                        "all_failing": res[2][:40]})
    if errors:
        violation(run, {"broken": "case file does not evaluate", "detail": errors[0][1]}, nofail=True)
    if res[0]:
        violation(run, {"broken": "correspondence model/implementation", "tie_breaking_case": case(res[0][0]), "all": res[0][:40]}, nofail=True)
    if broken:
        violation(run, {"broken": broken[0][0], "detail": broken[0][1], "all_broken": [b[0] for b in broken]}, nofail=True)
    run.finish(0)
    print("C06 ok: %d histories x 4 families, %d obligations" % (len(recs), len(run.obligations)))
