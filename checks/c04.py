"""C04 -- composition arithmetic is exact pointwise integer arithmetic."""
from collections import Counter
from tools.vlib import *
from checks.complib import key_term

HEADER = """From Coq Require Import ZArith NArith List Bool.
From CE Require Import Str Comp CompSpec ArithCheck.
Import ListNotations."""
THEOREMS = ["C04_add", "C04_sub", "C04_mul", "C04_neg", "C04_set", "C04_inc", "C04_collect", "C04_nodup_invariant",
            "C04_forms_agree", "C04_operands_untouched", "C04_apply_pointwise", "C04_reachable_nodup", "C04_nonvacuous"]


LAWS = ["C04a_add_comm", "C04a_add_assoc", "C04a_add_sub_cancel", "C04a_sub_self", "C04a_sub_as_add_neg", "C04a_neg_involutive",
        "C04a_neg_is_mul", "C04a_mul_one_zero", "C04a_mul_mul", "C04a_mul_distr_add", "C04a_mul_distr_scalar",
        "C04a_repeated_add", "C04a_nonvacuous"]


def zl(xs):
    return "[" + "; ".join("(%d)%%Z" % x for x in xs) + "]"


def ents(pool, l):
    return "[" + "; ".join("(%s, (%d)%%Z)" % (key_term(pool, k), n) for k, n in l) + "]"


def term(pool, r):
    if r["op"] == "arith":
        o = r["out"]
        out = "None" if o == "panic" else "(Some (%s, %s, %s))" % (
            zl(o["res"]), "None" if o["a_after"] is None else "(Some %s)" % zl(o["a_after"]), zl(o["b_after"]))
        return "AArith %d%%N %s %s (%d)%%Z %d%%nat %d%%nat %s" % (r["id"], ents(pool, r["a"]), ents(pool, r["b"]), r["n"], r["kind"], r["form"], out)
    o = r["out"]
    out = "None" if o == "panic" else "(Some (%s, %d%%nat))" % (zl(o["res"]), o["len"])
    return "ACtor %d%%N %s %s" % (r["id"], ents(pool, r["a"]), out)


def run(run, args):
    n = (60 if run.tier == "quick" else 1500) * run.scale
    ok, log = build_harness()
    run.oblige("harness builds against /repo", ok, log[-400:] if not ok else "")
    if not ok:
        violation(run, {"broken": "correspondence harness does not build against /repo", "detail": log[-3000:]}, nofail=True)
    source_tie(run, ("comp", "props"))
    rc, out, _ = make(["model/ArithCheck.vo"])
    if rc != 0:
        violation(run, {"broken": "model files do not build", "detail": out[-3000:]}, nofail=True)
    rc, out, err, dt = run_harness(["arith", run.seed, n])
    if rc != 0:
        violation(run, {"broken": "harness `arith` failed", "detail": err[-2000:]}, nofail=True)
    lines = read_jsonl(out)
    pool, recs = lines[0]["pool"], lines[1:]
    header = HEADER + "\nDefinition pool : list key := [%s].\n" % "; ".join(key_term(pool, i) for i in range(len(pool)))
    evals = ["aids_where (fun c => negb (a_tie pool c)) cases", "aids_where (fun c => negb (a_holds pool c)) cases",
             "aids_where a_nontrivial cases"]
    res, errors = eval_shards("C04", header, [term(pool, r) for r in recs], "acase", evals, shard=120)
    by_id = {r["id"]: r for r in recs}
    kinds = Counter((r["op"], r.get("kind"), r.get("form")) for r in recs)
    pairings = Counter((r.get("ta"), r.get("tb")) for r in recs if r["op"] == "arith")
    run.cov.update({"evaluations": len(recs), "distinct_nontrivial": len(set(res[2])),
                    "rule": "operand pair lists of 0..6 (key, count) pairs over a pool of 14 keys (incl. Ar/Ca, H/H+, Tc/Pm which collide on mass number) (duplicates and zero counts included, counts up to "
                            "2.5e5 in magnitude, scalars up to 1e3) x all 16 pairings of {Vec, Map, Enum(Vec), Enum(Map)} with a random operator form "
                            "(by-reference, by-value, in-place, in-place through &mut) of +, -, *, unary minus; plus every pair constructor of the three "
                            "types; observation = get on every pool key of result and operands; non-trivial = both operands non-empty / >= 2 pairs",
                    "kind_form_histogram": {str(k): v for k, v in sorted(kinds.items(), key=str)},
                    "pairing_histogram": {str(k): v for k, v in sorted(pairings.items(), key=str)},
                    "traces_validated_against_impl": len(recs) - len(res[0])})
    run.samples = [{k: v for k, v in r.items()} for r in recs[:3]] + [r for r in recs if r["op"] == "ctor"][:2]
    run.oblige("case files evaluate", not errors, errors[0][1][-300:] if errors else "")
    run.oblige("correspondence: model = implementation on every case", not res[0], "%d differ" % len(res[0]))
    run.oblige("pointwise laws, untouched operands and constructor sums hold on every implementation output", not res[1], "")
    broken = standard_proof_obligations(run, "C04", THEOREMS)
    broken += standard_proof_obligations(run, "C04a", LAWS)
    broken += source_corollaries(run, "C04s", ['C04s_list', 'C04s_map', 'C04s_enum', 'C04s_forms_agree'], ('comp', 'props'))
    if res[1]:
        violation(run, {"failing_input": by_id[res[1][0]], "pool": pool,
                        "what": "result or operand reads differ from pointwise integer arithmetic on the listed pairs", "all_failing": res[1][:40]})
    if errors:
        violation(run, {"broken": "case file does not evaluate", "detail": errors[0][1]}, nofail=True)
    if res[0]:
        violation(run, {"broken": "correspondence model/implementation", "tie_breaking_case": by_id[res[0][0]], "all": res[0][:40]}, nofail=True)
    if broken:
        violation(run, {"broken": broken[0][0], "detail": broken[0][1], "all_broken": [b[0] for b in broken]}, nofail=True)
    run.finish(0)
    print("C04 ok: %d cases, %d obligations" % (len(recs), len(run.obligations)))
