"""C15 -- the Poisson approximation is a normalised Poisson profile on a neutron ladder."""
from collections import Counter
from tools.vlib import *

HEADER = """From Coq Require Import ZArith NArith List Bool Floats.
From CE Require Import Num NumFloat NumFloat64 Peak PeakCheck PoissonCheck.
Import ListNotations. Open Scope float_scope."""

THEOREMS = ["C15_length", "C15_ladder", "C15_count_range", "C15_count_least", "C15_count_monotone",
            "C15_count_monotone_field", "C15_ratio", "C15_nonneg_sum", "C15_spacing", "C15_nonvacuous"]


def term(r):
    if r["op"] == "approx":
        o = "None" if r["out"] == "panic" else "(Some %s)" % coq_list(["mkPeak %s %s" % (coq_f(p[0]), coq_f(p[1])) for p in r["out"]])
        return "QApprox %d %s %d %s %s" % (r["id"], coq_f(r["mass"]), r["n"], coq_z(r["z"]), o)
    oz = lambda v: "None" if v is None else "(Some (%d)%%Z)" % v
    return "QNpeaks %d %s %s %s %s %s" % (r["id"], coq_f(r["mass"]), coq_f(r["t"]), coq_f(r["t2"]), oz(r["out"]), oz(r["out2"]))


def run(run, args):
    n = (500 if run.tier == "quick" else 5000) * run.scale
    ok, log = build_harness()
    run.oblige("harness builds against /repo", ok, log[-400:] if not ok else "")
    if not ok:
        violation(run, {"broken": "correspondence harness does not build against /repo", "detail": log[-3000:]}, nofail=True)
    source_tie(run, ("mz", "poisson"))
    rc, out, _ = make(["model/PoissonCheck.vo"])
    if rc != 0:
        violation(run, {"broken": "model files do not build", "detail": out[-3000:]}, nofail=True)
    rc, out, err, dt = run_harness(["poisson", run.seed, n])
    if rc != 0:
        violation(run, {"broken": "harness `poisson` failed", "detail": err[-2000:]}, nofail=True)
    recs = read_jsonl(out)
    evals = ["qids_where (fun c => negb (q_tie f_same c)) cases", "qids_where (fun c => negb (q_tie f_tol c)) cases",
             "qids_where (fun c => negb (q_holds c)) cases", "qids_where q_nontrivial cases"]
    res, errors = eval_shards("C15", HEADER, [term(r) for r in recs], "qcase", evals, shard=40)
    by_id = {r["id"]: r for r in recs}
    run.cov.update({"evaluations": len(recs), "distinct_nontrivial": len(set(res[3])),
                    "rule": "masses: 0, landmarks, log-uniform to 1e9 / 1e5, uniform to 1e5; counts 0..300; charges -8..8; "
                            "thresholds on a 1001-point grid plus 0 and 1, each paired with a larger one (monotonicity); "
                            "non-trivial = more than one peak / a count above 1",
                    "ops": dict(Counter(r["op"] for r in recs)),
                    "tie_bitwise_mismatches": len(res[0]), "tie_tolerance_mismatches": len(res[1]),
                    "traces_validated_against_impl": len(recs) - len(res[1])})
    run.samples = [{k: v for k, v in r.items() if k != "out"} for r in recs[:6]]
    run.oblige("case files evaluate", not errors, errors[0][1][-300:] if errors else "")
    run.oblige("correspondence: model (binary64 instance) = implementation on every case", not res[1],
               "%d bitwise differences, %d beyond tolerance" % (len(res[0]), len(res[1])))
    run.oblige("specification holds on every implementation output", not res[2], "")
    broken = standard_proof_obligations(run, "C15", THEOREMS)
    # the ladder depends on mass and charge alone: prefix under a smaller request, independent of lambda_factor
    broken += standard_proof_obligations(run, "C15a", ["C15a_mz_prefix", "C15a_mz_lambda_free", "C15a_nonvacuous"])
    broken += source_corollaries(run, "C15s", ['C15s_length', 'C15s_ladder', 'C15s_count_range', 'C15s_count_public_range', 'C15s_count_least', 'C15s_count_monotone_field', 'C15s_ratio', 'C15s_nonneg_sum', 'C15s_spacing', 'C15s_public'], ('mz', 'poisson'))
    # floating-point level: sum and consecutive ratios in rounded arithmetic, and the binary64 instance of the sum
    broken += standard_proof_obligations(run, "C15f", ["C15_sum_rounded", "C15_ratio_rounded", "C15_sum_binary64", "C15_float_nonvacuous"],
                                         allowed_axioms=STD_FLOAT_AXIOMS)
    if res[2]:
        violation(run, {"failing_input": by_id[res[2][0]], "what": "output violates the property's specification (q_holds = false)",
                        "all_failing_ids": res[2][:50]})
    if errors:
        violation(run, {"broken": "case file does not evaluate", "detail": errors[0][1]}, nofail=True)
    if res[1]:
        violation(run, {"broken": "correspondence model/implementation", "tie_breaking_case": by_id[res[1][0]], "all_ids": res[1][:50]}, nofail=True)
    if broken:
        violation(run, {"broken": broken[0][0], "detail": broken[0][1], "all_broken": [b[0] for b in broken]}, nofail=True)
    run.finish(0)
    print("C15 ok: %d cases, %d obligations" % (len(recs), len(run.obligations)))
