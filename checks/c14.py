"""C14 -- derived pattern operations agree with their step-wise definitions."""
from tools.vlib import *
from checks import peaklib
from checks.c13 import decide

THEOREMS_C14 = ["C14_drop_last", "C14_slice", "C14_incremental", "C14_eq", "C14_peak_eq", "C14_fused_stepwise", "C14_nonvacuous"]


def run(run, args):
    n = (600 if run.tier == "quick" else 6000) * run.scale
    recs, res, errors = peaklib.run_peak(run, "c14", n)
    decide(run, recs, res, errors, THEOREMS_C14, "C14")
