"""C13 -- pattern truncation, filtering, scaling and shifting."""
from tools.vlib import *
from checks import peaklib

THEOREMS = []  # filled once Properties/C13.v exists


def run(run, args):
    n = (600 if run.tier == "quick" else 6000) * run.scale
    recs, res, errors = peaklib.run_peak(run, "c13", n)
    decide(run, recs, res, errors, THEOREMS_C13, "C13")


THEOREMS_C13 = ["C13_shift", "C13_scale_by", "C13_normalize_shape", "C13_truncate_after", "C13_ignore_below", "C13_normalize_sum",
                "C13_normalize_ratio", "C13_truncate_sum", "C13_ignore_sum", "C13_nonvacuous"]


def decide(run, recs, res, errors, theorems, module):
    by_id = {r["id"]: r for r in recs}
    peaklib.summarize(run, recs, res)
    run.oblige("case files evaluate", not errors, errors[0][1][-300:] if errors else "")
    run.oblige("correspondence: model (binary64 instance) = implementation on every case (1e-12 rel.)", not res[1],
               "%d bitwise differences, %d beyond tolerance" % (len(res[0]), len(res[1])))
    run.oblige("specification holds on every implementation output", not res[2], "")
    broken = standard_proof_obligations(run, module, theorems)
    # the same theorems about the methods as translated from the current peak.rs (through proofs/PeakTie.v), when that tie stands
    if module == "C13":
        broken += source_corollaries(run, "C13s", ['C13s_shift', 'C13s_scale_by', 'C13s_normalize_shape', 'C13s_truncate_after', 'C13s_ignore_below', 'C13s_normalize_sum', 'C13s_normalize_ratio', 'C13s_truncate_sum', 'C13s_ignore_sum', 'C13s_shift_frame', 'C13s_normalize_frame', 'C13s_ignore_below_frame', 'C13s_truncate_after_frame'], ('peak',))
    if module == "C14":
        broken += source_corollaries(run, "C14s", ['C14s_drop_last', 'C14s_slice', 'C14s_peak_eq', 'C14s_fused_stepwise'], ('peak',))
    if module == "C13":
        # frame laws: what each operation leaves unchanged (generic in the numeric interpretation)
        broken += standard_proof_obligations(run, "C13a", ["C13a_shift_frame", "C13a_scale_by_frame", "C13a_normalize_frame",
                                                           "C13a_ignore_below_frame", "C13a_truncate_after_frame", "C13a_nonvacuous"])
        # floating-point level: normalize in rounded arithmetic, instantiated at Coq's primitive binary64 floats
        broken += standard_proof_obligations(run, "C13f", ["C13_normalize_rounded", "C13_binary64_std", "C13_normalize_binary64", "C13_float_nonvacuous"],
                                             allowed_axioms=STD_FLOAT_AXIOMS)
        broken += standard_proof_obligations(run, "C14f", ["C13_ignore_below_rounded", "C13_truncate_after_rounded", "C13_truncate_after_all_rounded",
                                                           "C14_renorm_binary64"], allowed_axioms=STD_FLOAT_AXIOMS)
    if module == "C14":
        broken += standard_proof_obligations(run, "C14f", ["C14_drop_last_rounded", "C14_slice_rounded", "C14_renorm_binary64"], allowed_axioms=STD_FLOAT_AXIOMS)
        # the fused truncate / filter / shift / normalise in rounded arithmetic (its total is built by additions, then subtractions)
        broken += standard_proof_obligations(run, "C14g", ["C14_fused_shape", "C14_fused_total_interval", "C14_fused_total_rounded", "C14_fused_sum_rounded",
                                                           "C14_fused_sum_sharp", "C14_fused_nodrop", "C14_fused_S_pos", "C14_fused_binary64",
                                                           "C14_fused_err_small_binary64", "C14_fused_float_nonvacuous", "C14_fused_float_nonvacuous_err"],
                                             allowed_axioms=STD_FLOAT_AXIOMS)
    if res[2]:
        r = by_id[res[2][0]]
        violation(run, {"failing_input": r, "what": "the implementation's output violates the property's specification (holds_on = false)",
                        "all_failing_ids": res[2][:50], "also_tie_broken": res[2][0] in res[1]})
    if errors:
        violation(run, {"broken": "case file does not evaluate", "detail": errors[0][1]}, nofail=True)
    if res[1]:
        r = by_id[res[1][0]]
        violation(run, {"broken": "correspondence model/implementation", "tie_breaking_case": r, "all_ids": res[1][:50],
                        "note": "model and implementation disagree but no case violating the specification was found"}, nofail=True)
    if broken:
        violation(run, {"broken": broken[0][0], "detail": broken[0][1], "all_broken": [b[0] for b in broken]}, nofail=True)
    run.finish(0)
    print("%s ok: %d cases, %d obligations" % (module, len(recs), len(run.obligations)))
