"""C07 -- formula text round-trips and is canonical."""
from collections import Counter
from tools.vlib import *
from checks import formlib
from checks.formlib import cs, out_term

HEADER = """From Coq Require Import ZArith NArith List Bool.
From CE Require Import Str Comp Formula FormulaSpec FormulaCheck RenderCheck.
Import ListNotations."""
THEOREMS = ["C07_canonical", "C07_order", "C07_render_parse", "C07_table_shapes"]


def run(run, args):
    n = (400 if run.tier == "quick" else 6000) * run.scale
    formlib.prepare(run)
    source_tie(run, ("render", "formula", "espec"))
    rc, out, _ = make(["model/RenderCheck.vo"])
    if rc != 0:
        violation(run, {"broken": "model files do not build", "detail": out[-3000:]}, nofail=True)
    rc, out, err, dt = run_harness(["render", run.seed, n], timeout=900)
    if rc != 0:
        violation(run, {"broken": "harness `render` failed", "detail": err[-2000:]}, nofail=True)
    recs = read_jsonl(out)
    items = ["mkRC %d%%N [%s] [%s] [%s] [%s] [%s]" % (
        r["id"], "; ".join("(%s, %d%%N, (%d)%%Z)" % (cs(s), i, c) for s, i, c in r["ents"]),
        "; ".join(cs(t) for t in r["texts"]), "; ".join(out_term(o) for o in r["back"]),
        "; ".join(cs(j) for j in r["json"]), "; ".join(out_term(o) for o in r["de"])) for r in recs]
    evals = ["rids_where (fun c => negb (r_tie c)) cases", "rids_where (fun c => negb (r_holds c)) cases", "rids_where r_nontrivial cases"]
    res, errors = eval_shards("C07", HEADER, items, "rcase", evals, shard=40)
    # the serde / text round trip of element specifications: every (element, isotope-or-none) pair of the table
    from checks.c16 import eout, HEADER as EHEADER
    rc, out, _ = make(["model/ESpecCheck.vo"])
    rc, pout, perr, dt = run_harness(["espec", "pairs"], timeout=300)
    pairs = read_jsonl(pout)[1:] if rc == 0 else []
    pitems = ["mkPCs %d%%N %s %d%%N %s %s %s %s" % (p["id"], coq_str(p["pair"][0]), p["pair"][1], cs(p["text"]), eout(p["back"]), cs(p["json"]), eout(p["de"]))
              for p in pairs]
    pres, perrors = eval_shards("C07_pairs", EHEADER, pitems, "pcase",
                                ["pids_where (fun c => negb (p_tie c)) cases", "pids_where (fun c => negb (p_holds c)) cases"], shard=1000)
    errors = errors + perrors
    run.cov["element_specification_pairs"] = len(pairs)
    by_id = {r["id"]: r for r in recs}
    known = {k: t for (k, t) in load_known("C07")}
    fails, knowns = [], {}
    for i in res[1]:
        r = by_id[i]
        ks = ["element:%s" % s for (s, _, _) in r["ents"] if s == "e*"]
        if ks and all(k in known for k in ks) and i not in res[0]:
            for k in ks:
                knowns.setdefault(k, []).append(i)
        else:
            fails.append(i)
    # the crate's own `==` between the parsed-back (or deserialized) composition and the original with a populated mass cache
    neq = [r["id"] for r in recs if any(x is False for x in r.get("eq", []))]
    run.cov["equal_after_round_trip"] = {"compared": sum(1 for r in recs for x in r.get("eq", []) if x is not None), "unequal": len(neq)}
    run.oblige("the text (and the serde form) parses back to a composition that is `==` the original, whatever the original has cached", not neq, "%d unequal" % len(neq))
    for i in neq:
        if i not in fails:
            fails.append(i)
    sizes = Counter(len(r["ents"]) for r in recs)
    run.cov.update({"evaluations": len(recs), "renderings_compared": sum(r["orders"] * 4 for r in recs), "distinct_nontrivial": len(set(res[2])),
                    "rule": "compositions of 0-6 distinct keys drawn from all 444 table keys (2 of 3 from a pool that mixes plain and fixed-isotope keys of C, H, "
                            "Cl, and symbols sharing a first letter), counts 1..1e6; every rotation, the reversal and 4 shuffles of the insertion order x "
                            "{Vec, Map, Enum(Vec), Enum(Map)} rendered; the text parsed back through the three FromStr impls; serde_json round trip of Vec "
                            "and Map, serialisation of the enum; non-trivial = at least 2 keys",
                    "key_count_histogram": {str(k): v for k, v in sorted(sizes.items())}, "known_finding_cases": sum(len(v) for v in knowns.values()),
                    "traces_validated_against_impl": len(recs) - len(res[0])})
    run.samples = [{"ents": r["ents"], "texts": r["texts"]} for r in recs[1:7]]
    run.oblige("case files evaluate", not errors, errors[0][1][-300:] if errors else "")
    run.oblige("correspondence: model printer and parser = implementation on every composition", not res[0], "%d differ" % len(res[0]))
    run.oblige("one canonical text per composition; it and its serde forms round-trip (outside the listed known finding)", not fails, "")
    broken = standard_proof_obligations(run, "C07", THEOREMS) if THEOREMS else []
    broken += source_corollaries(run, "C07s", ["C07s_canonical", "C07s_display_canonical", "C07s_order", "C07s_order_any", "C07s_render_parse", "C07s_nonvacuous"],
                                 ("render", "formula", "espec"))
    for k in sorted(knowns):
        print("KNOWN-FINDING: property=C07 %s %s" % (k, known[k]))
    if errors:
        violation(run, {"broken": "case file does not evaluate", "detail": errors[0][1]}, nofail=True)
    run.oblige("every element specification of the table round-trips through its text and its serde form", bool(pairs) and not pres[1], "%d pairs" % len(pairs))
    if pairs and pres[1]:
        violation(run, {"failing_input": pairs[pres[1][0]], "what": "an element specification does not deserialize / parse back to an equal value"})
    if fails:
        violation(run, {"failing_input": by_id[fails[0]], "what": "renderings differ between insertion orders / representations, or the text (or its serde "
                        "form) does not parse back to the same composition", "all_failing_ids": fails[:40]})
    if res[0]:
        violation(run, {"broken": "correspondence model/implementation", "tie_breaking_case": by_id[res[0][0]], "all": res[0][:40]}, nofail=True)
    if broken:
        violation(run, {"broken": broken[0][0], "detail": broken[0][1], "all_broken": [b[0] for b in broken]}, nofail=True)
    run.finish(0)
    print("C07 ok: %d compositions, %d obligations" % (len(recs), len(run.obligations)))
