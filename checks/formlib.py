"""Shared by C01 / C05 / C07: harness `formula` records -> Coq fcase terms."""
from tools.vlib import *

HEADER = """From Coq Require Import ZArith NArith List Bool.
From CE Require Import Str Comp Formula FormulaSpec FormulaCheck.
Import ListNotations."""


def cs(s):
    return "[" + "; ".join("%d%%N" % ord(c) for c in s) + "]"


def out_term(o):
    if o == "panic":
        return "RPanic"
    if "err" in o:
        return "(RErr %d%%nat)" % o["err"]
    return "(ROk [%s])" % "; ".join("(%s, %d%%N, (%d)%%Z)" % (cs(t[0]), t[1], t[2]) for t in o["ok"])


def opt_digits(d):
    return "None" if d is None else "(Some %s)" % cs(d)


def ast_term(items):
    parts = []
    for it in items:
        if "el" in it:
            parts.append("El %s %s %s" % (cs(it["el"]), opt_digits(it["iso"]), opt_digits(it["cnt"])))
        else:
            parts.append("Gr %s %s" % (ast_term(it["gr"]), opt_digits(it["cnt"])))
    return "[" + "; ".join(parts) + "]"


def case_term(r):
    return "mkFC %d%%N %s [%s] %s" % (r["id"], cs(r["s"]), "; ".join(out_term(o) for o in r["outs"]),
                                     "(Some %s)" % ast_term(r["ast"]) if "ast" in r else "None")


EVALS = ["fids_where (fun c => negb (f_tie c)) cases", "fids_where (fun c => negb (c05_holds c)) cases",
         "fids_where (fun c => negb (c01_holds c)) cases", "fids_where (fun c => negb (f_kind c)) cases",
         "fids_where f_nontrivial cases"]


def prepare(run):
    ok, log = build_harness()
    run.oblige("harness builds against /repo", ok, log[-400:] if not ok else "")
    if not ok:
        violation(run, {"broken": "correspondence harness does not build against /repo", "detail": log[-3000:]}, nofail=True)
    rc, msg = gen_table()
    if rc != 0:
        violation(run, {"broken": "translator cannot read table.rs", "detail": msg}, nofail=True)
    rc, out, _ = make(["model/FormulaCheck.vo"])
    if rc != 0:
        violation(run, {"broken": "model files do not build", "detail": out[-3000:]}, nofail=True)


def harness_cases(mode, seed, n, idbase):
    rc, out, err, dt = run_harness(["formula", mode, seed, n], timeout=1200)
    if rc != 0:
        return None, err
    recs = read_jsonl(out)
    for r in recs:
        r["id"] += idbase
        r["mode"] = mode
    return recs, ""


def evaluate(prefix, recs, shard=400):
    return eval_shards(prefix, HEADER, [case_term(r) for r in recs], "fcase", EVALS, shard=shard)
