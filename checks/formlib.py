"""Shared by C01 / C05 / C07: harness `formula` records -> Coq fcase terms."""
from tools.vlib import *

HEADER = """From Coq Require Import ZArith NArith List Bool.
From CE Require Import Str Comp Formula FormulaSpec FormulaCheck.
Import ListNotations."""


def cs(s):
    return "[" + "; ".join("%d%%N" % ord(c) for c in s) + "]"


def out_term(o):
    if o == "panic":
        return "RPanic"
    if "err" in o:
        return "(RErr %d%%nat)" % o["err"]
    return "(ROk [%s])" % "; ".join("(%s, %d%%N, (%d)%%Z)" % (cs(t[0]), t[1], t[2]) for t in o["ok"])


def opt_digits(d):
    return "None" if d is None else "(Some %s)" % cs(d)


def ast_term(items):
    parts = []
    for it in items:
        if "el" in it:
            parts.append("El %s %s %s" % (cs(it["el"]), opt_digits(it["iso"]), opt_digits(it["cnt"])))
        else:
            parts.append("Gr %s %s" % (ast_term(it["gr"]), opt_digits(it["cnt"])))
    return "[" + "; ".join(parts) + "]"


def case_term(r):
    return "mkFC %d%%N %s [%s] %s" % (r["id"], cs(r["s"]), "; ".join(out_term(o) for o in r["outs"]),
                                     "(Some %s)" % ast_term(r["ast"]) if "ast" in r else "None")


EVALS = ["fids_where (fun c => negb (f_tie c)) cases", "fids_where (fun c => negb (c05_holds c)) cases",
         "fids_where (fun c => negb (c01_holds c)) cases", "fids_where (fun c => negb (f_kind c)) cases",
         "fids_where f_nontrivial cases"]


def prepare(run):
    ok, log = build_harness()
    run.oblige("harness builds against /repo", ok, log[-400:] if not ok else "")
    if not ok:
        violation(run, {"broken": "correspondence harness does not build against /repo", "detail": log[-3000:]}, nofail=True)
    rc, msg = gen_table()
    if rc != 0:
        violation(run, {"broken": "translator cannot read table.rs", "detail": msg}, nofail=True)
    source_tie(run, ("formula", "element"))
    rc, out, _ = make(["model/FormulaCheck.vo"])
    if rc != 0:
        violation(run, {"broken": "model files do not build", "detail": out[-3000:]}, nofail=True)


def harness_cases(mode, seed, n, idbase):
    rc, out, err, dt = run_harness(["formula", mode, seed, n], timeout=1200)
    if rc != 0:
        return None, err
    recs = read_jsonl(out)
    for r in recs:
        r["id"] += idbase
        r["mode"] = mode
    return recs, ""


def evaluate(prefix, recs, shard=400):
    return eval_shards(prefix, HEADER, [case_term(r) for r in recs], "fcase", EVALS, shard=shard)


# ---- extracted evaluator (ExtrOcamlBasic only): the same `verdict` the case files evaluate, run at volume ----
EXTRACT = os.path.join(COQ, "extract")


def build_extracted():
    """Re-extract FormulaCheck's verdict from the current model and compile the line driver."""
    for f in ("formula_model.ml", "formula_model.mli", "c05_driver", "Extract.vo"):
        try:
            os.remove(os.path.join(EXTRACT, f))
        except OSError:
            pass
    rc, out, _ = make(["extract/Extract.vo"])
    if rc != 0 or not os.path.exists(os.path.join(EXTRACT, "formula_model.ml")):
        return False, out[-2000:]
    rc, out, _ = sh(["ocamlfind", "ocamlopt", "-O2", "formula_model.mli", "formula_model.ml", "driver.ml", "-o", "c05_driver"],
                    cwd=EXTRACT, timeout=300)
    return rc == 0, out[-2000:]


def decode_line(line):
    parts = line.split("|")
    s = "".join(chr(int(x)) for x in parts[0].split(",") if x)

    def dec(o):
        if o == "P":
            return "panic"
        if o[0] == "E":
            return {"err": int(o[1:])}
        ents = []
        for t in [t for t in o[1:].split(";") if t]:
            sym, iso, cnt = t.split(":")
            ents.append(["".join(chr(int(x)) for x in sym.split(".") if x), int(iso), int(cnt)])
        return {"ok": ents}
    return {"s": s, "outs": [dec(o) for o in parts[1:]]}


def decode_eline(line):
    s, ps, rs = line.split("|")

    def dec(o):
        if o == "P":
            return "panic"
        if o[0] == "E":
            return {"err": int(o[1:])}
        sym, iso = o[1:].split(":")
        return {"ok": ["".join(chr(int(x)) for x in sym.split(".") if x), int(iso)]}
    return {"s": "".join(chr(int(x)) for x in s.split(",") if x), "parse": [dec(o) for o in ps.split(";")], "reads": [int(x) for x in rs.split(",")]}


def extracted_sweep(jobs, sub="formula"):
    """jobs: list of (shard, length) for `<sub> exhc`.  Returns (lines judged, tie-failing records, holds-failing records,
    error-kind differences, error text)."""
    import concurrent.futures as cf
    hb, drv = harness_bin(), os.path.join(EXTRACT, "c05_driver")
    decode_line = globals()["decode_line" if sub == "formula" else "decode_eline"]

    def one(job):
        p = subprocess.run("%s %s exhc %d %d | %s %s" % (hb, sub, job[0], job[1], drv, "" if sub == "formula" else sub), shell=True,
                           capture_output=True, text=True, timeout=3000)
        return job, p.returncode, p.stdout, p.stderr
    total, tie, holds, kind, err = 0, [], [], 0, ""
    with cf.ThreadPoolExecutor(max_workers=16) as ex:
        for job, rc, out, e in ex.map(one, jobs):
            lines = out.splitlines()
            done = [l for l in lines if l.startswith("DONE ")]
            if rc != 0 or not done:
                err = err or "shard %s: rc=%d %s" % (job, rc, e[-500:])
                continue
            d = done[0].split()
            total += int(d[1])
            kind += int(d[4])
            tie += [decode_line(l[4:]) for l in lines if l.startswith("TIE ")]
            holds += [decode_line(l[6:]) for l in lines if l.startswith("HOLDS ")]
    return total, tie, holds, kind, err
