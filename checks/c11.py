"""C11 -- fine-structure convolution enumerates the exact isotopologue distribution."""
from collections import Counter
from tools.vlib import *

HEADER = """From Coq Require Import ZArith NArith List Bool Floats String.
From CE Require Import Num NumFloat NumFloat64 Peak PeakCheck ConvCheck.
Import ListNotations. Open Scope float_scope. Open Scope string_scope."""
THEOREMS = ["C11_threshold_zero", "C11_multiset", "C11_survivors", "C11_no_junk", "C11_tail", "C11_output_sorted", "C11_output_sum",
            "C11_output_above", "C11_nonvacuous"]


def peaks_term(o):
    if o == "panic":
        return "None"
    return "(Some [%s])" % "; ".join("mkPeak %s %s" % (coq_f(p[0]), coq_f(p[1])) for p in o)


def case_term(r, out=None, charge=None, cid=None):
    ents = "[" + "; ".join("(%s, [%s], (%d)%%Z)" % (coq_str(s), "; ".join("%d%%N" % k for k in order), n) for s, order, n in r["ents"]) + "]"
    return "mkCC %d%%N %s (%d)%%Z %s %s %s" % (r["id"] if cid is None else cid, ents, r["charge"] if charge is None else charge,
                                              coq_f(r["carrier"]), coq_f(r["thr"]), peaks_term(r["out"] if out is None else out))


def prepare(run):
    ok, log = build_harness()
    run.oblige("harness builds against /repo", ok, log[-400:] if not ok else "")
    if not ok:
        violation(run, {"broken": "correspondence harness does not build against /repo", "detail": log[-3000:]}, nofail=True)
    rc, msg = gen_table()
    if rc != 0:
        violation(run, {"broken": "translator cannot read table.rs", "detail": msg}, nofail=True)
    rc, out, _ = make(["model/ConvCheck.vo"])
    if rc != 0:
        violation(run, {"broken": "model files do not build", "detail": out[-3000:]}, nofail=True)


EVALS = ["cids_where (fun c => negb (c_tie f_same c)) cases", "cids_where (fun c => negb (c_tie f_tol c)) cases",
         "map (fun c => N.of_nat (c11_code c)) cases", "cids_where c_nontrivial cases"]


def run(run, args):
    n, maxl, maxarr = (150, 200, 2500) if run.tier == "quick" else (700, 600, 30000)
    n *= run.scale
    prepare(run)
    source_tie(run, ("mz", "convolution", "peak"))
    rc, out, err, dt = run_harness(["conv", run.seed, n, maxl, maxarr], timeout=1200)
    if rc != 0:
        violation(run, {"broken": "harness `conv` failed", "detail": err[-2000:]}, nofail=True)
    recs = read_jsonl(out)
    # every generated composition has at most `maxarr` isotope arrangements, and the convolution returns at most one peak per
    # arrangement: a longer output is wrong by counting alone (and would make the case file too large to evaluate)
    over = [r for r in recs if r["out"] != "panic" and len(r["out"]) > maxarr]
    if over:
        r = dict(over[0]); k = len(r["out"]); r["out"] = r["out"][:20]
        prev = [{q: x[q] for q in ("id", "ents", "thr", "charge")} | {"n_peaks": (len(x["out"]) if x["out"] != "panic" else "panic")} for x in recs if x["id"] < r["id"]][-4:]
        run.oblige("no output has more peaks than the composition has isotope arrangements", False, "%d outputs" % len(over))
        violation(run, {"failing_input": r, "n_peaks_returned": k, "bound_on_arrangements": maxarr, "calls_before_it_in_this_process": prev,
                        "what": "isotopic_convolution returned %d peaks (first 20 shown) for a composition with at most %d isotope arrangements: peaks that are "
                                "no isotopologue of the composition (the calls made earlier in the same process are listed: the function must not depend on them)" % (k, maxarr),
                        "all_failing_ids": [x["id"] for x in over][:40]})
    res, errors = eval_shards("C11", HEADER, [case_term(r) for r in recs], "ccase", EVALS, shard=6, timeout=1500)
    by_id = {r["id"]: r for r in recs}
    ids = [r["id"] for r in recs]
    run.oblige("case files evaluate", not errors, errors[0][1][-300:] if errors else "")
    if errors:
        violation(run, {"broken": "case file does not evaluate", "detail": errors[0][1]}, nofail=True)
    codes = dict(zip(ids, res[2]))
    fails = [i for i in ids if codes[i] == 1]
    thr = Counter(r["thr"] for r in recs)
    cnts = Counter(e[2] for r in recs for e in r["ents"])
    run.cov.update({"evaluations": len(recs), "distinct_nontrivial": len(set(res[3])),
                    "rule": "compositions of 1-3 elements from 18 (incl. Cl, Br, S, B, Li, Se, Fe, Cu) with counts from {0..17, 31, 32, 33} "
                            "(every branch of the repeated-squaring power), limited to <= %d arrangements and <= %d isotopologues, both representations, "
                            "thresholds {0, 1e-12 .. 1e-2, 0.5, 0.9999}, charges -8..8, four carriers; plus the empty composition, a zero count and the "
                            "nothing-survives case; specification = exact multinomial expansion over Q; non-trivial = more than two peaks" % (maxarr, maxl),
                    "threshold_histogram": dict(thr), "count_histogram": {str(k): v for k, v in sorted(cnts.items())},
                    "tie_bitwise_mismatches": len(res[0]), "tie_tolerance_mismatches": len(res[1]),
                    "traces_validated_against_impl": len(recs) - len(res[1])})
    run.samples = [{k: r[k] for k in ("id", "ents", "thr", "charge", "rep")} | {"n_peaks": len(r["out"]) if r["out"] != "panic" else "panic"} for r in recs[:8]]
    run.oblige("correspondence: model (binary64 instance, same isotope iteration order) = implementation on every case", not res[1],
               "%d bitwise differences, %d beyond 1e-12" % (len(res[0]), len(res[1])))
    run.oblige("the exact isotopologue distribution is what every implementation output shows", not fails, "")
    broken = standard_proof_obligations(run, "C11", THEOREMS) if THEOREMS else []
    broken += source_corollaries(run, "C11s", ['C11s_convolve_with', 'C11s_pow_threshold_zero', 'C11s_pow_multiset', 'C11s_pow_no_junk', 'C11s_threshold_zero', 'C11s_multiset', 'C11s_output_sorted', 'C11s_output_sum', 'C11s_output_above', 'C11s_driver'], ('mz', 'convolution', 'peak'))
    # floating-point level: the output is normalize().ignore_below(thr) of whatever was built, so its sum is within normalize's rounded bound
    broken += standard_proof_obligations(run, "C14f", ["C11_output_sum_rounded"], allowed_axioms=STD_FLOAT_AXIOMS)
    if fails:
        violation(run, {"failing_input": by_id[fails[0]], "what": "peaks are not the exact isotopologues (threshold 0) / a surviving arrangement is missing, "
                        "ratios are off or a peak is below the threshold (threshold > 0) / panic", "all_failing_ids": fails[:40]})
    if res[1]:
        violation(run, {"broken": "correspondence model/implementation", "tie_breaking_case": by_id[res[1][0]], "all": res[1][:40]}, nofail=True)
    if broken:
        violation(run, {"broken": broken[0][0], "detail": broken[0][1], "all_broken": [b[0] for b in broken]}, nofail=True)
    run.finish(0)
    print("C11 ok: %d cases, %d obligations" % (len(recs), len(run.obligations)))
