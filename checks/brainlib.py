"""Shared by C03 / C08 / C09 / C10: harness `brain` records -> Coq bcase terms."""
from tools.vlib import *

HEADER = """From Coq Require Import ZArith NArith List Bool Floats String.
From CE Require Import Num NumFloat NumFloat64 Brain BrainCheck.
Import ListNotations. Open Scope float_scope. Open Scope string_scope."""


def req_term(r):
    if "i32" in r:
        return "(RI32 (%d)%%Z)" % r["i32"]
    if "usize" in r:
        return "(RUsize (%d)%%Z)" % r["usize"]
    if "opt" in r:
        return "(ROpt None)" if r["opt"] is None else "(ROpt (Some (%d)%%Z))" % r["opt"]
    return "(RF32 %s)" % coq_f(r["f32"])


def peaks_term(o):
    if o == "panic":
        return "None"
    return "(Some [%s])" % "; ".join("(%s, %s)" % (coq_f(p[0]), coq_f(p[1])) for p in o)


def ents_term(e):
    return "[" + "; ".join("(%s, %d%%N, (%d)%%Z)" % (coq_str(s), i, n) for s, i, n in e) + "]"


def case_term(r, out=None, cid=None):
    return "mkBC %d%%N %s %s (%d)%%Z %s %s %s %s" % (
        r["id"] if cid is None else cid, ents_term(r["ents"]), req_term(r["req"]), r["charge"], coq_f(r["carrier"]),
        coq_f(r["base"]), coq_f(r["mass"]), peaks_term(r["out"] if out is None else out))


def prepare(run, target="model/BrainCheck.vo"):
    ok, log = build_harness()
    run.oblige("harness builds against /repo", ok, log[-400:] if not ok else "")
    if not ok:
        violation(run, {"broken": "correspondence harness does not build against /repo", "detail": log[-3000:]}, nofail=True)
    rc, msg = gen_table()
    if rc != 0:
        violation(run, {"broken": "translator cannot read table.rs", "detail": msg}, nofail=True)
    if run.prop in ("C03", "C08", "C09", "C10"):
        # C09's default and signal-fraction requests are resolved by the Poisson estimate, so poisson.rs concerns C09 as well
        source_tie(run, ("mz", "poisson", "brain") if run.prop == "C09" else ("brain",))
    rc, out, _ = make([target])
    if rc != 0:
        violation(run, {"broken": "model files do not build", "detail": out[-3000:]}, nofail=True)
