"""C17 -- the C binding mirrors the Rust API, reports errors by code and is memory-safe."""
import shutil
from collections import Counter
from tools.vlib import *
from checks.formlib import cs

HARNESS_C = os.path.join(VERIF, "harness_c")
HEADER = """From Coq Require Import ZArith NArith List Bool Floats.
From CE Require Import Num NumFloat Str Comp Formula CBind CBindCheck.
Import ListNotations. Open Scope float_scope."""
THEOREMS = ["C17_no_abort", "C17_errors_change_nothing", "C17_effects", "C17_parse_handle", "C17_accounting", "C17_no_use_after_free"]


def codes(l):
    return "[" + "; ".join("%d%%N" % c for c in l) + "]"


def call_term(o):
    op = o["op"]
    z = lambda v: "(%d)%%Z" % v
    if op == "new": return "CNew"
    if op == "parse": return "(CParse %s)" % codes(o["text"])
    if op == "copy": return "(CCopy %d%%nat)" % o["h"]
    if op == "get": return "(CGet %d%%nat %s)" % (o["h"], codes(o["text"]))
    if op == "set": return "(CSet %d%%nat %s %s)" % (o["h"], codes(o["text"]), z(o["n"]))
    if op == "increment": return "(CInc %d%%nat %s %s)" % (o["h"], codes(o["text"]), z(o["n"]))
    if op == "add": return "(CAdd %d%%nat %d%%nat)" % (o["h"], o["g"])
    if op == "subtract": return "(CSub %d%%nat %d%%nat)" % (o["h"], o["g"])
    if op == "scale": return "(CScale %d%%nat %s)" % (o["h"], z(o["n"]))
    if op == "mass": return "(CMass %d%%nat)" % o["h"]
    if op == "free": return "(CFree %d%%nat)" % o["h"]
    raise ValueError(op)


def obs_term(o):
    op = o["op"]
    if op in ("new", "parse", "copy"):
        res = "(RAlloc (%d)%%Z %s)" % (o["code"], "true" if o["null"] else "false")
    elif op == "get":
        res = "(RValue (%d)%%Z)" % o["value"]
    elif op == "mass":
        res = "RMass"
    else:
        res = "(RCode (%d)%%Z)" % o["code"]
    vm = "(Some %s)" % coq_f(o["mass"]) if op == "mass" else "None"
    snap = "[" + "; ".join("None" if s is None else "(Some (mkSnap %s [%s]))" % (coq_f(s["mass"]), "; ".join("(%d)%%Z" % g for g in s["gets"]))
                           for s in o["snap"]) + "]"
    return "mkCO %s %s %s" % (res, vm, snap)


def build_c(asan=False):
    env = dict(ENV)
    cmd = ["cargo", "build", "--release", "--offline", "-q"]
    if asan:
        env["RUSTFLAGS"] = "--cfg %s -Zsanitizer=address" % GUARD
        cmd = ["cargo", "+nightly", "build", "--release", "--offline", "-q", "--target", "x86_64-unknown-linux-gnu", "--target-dir", os.path.join(HARNESS_C, "target_asan")]
    rc, out, _ = sh(cmd, cwd=HARNESS_C, timeout=1500, env=env)
    return rc == 0, out


def run(run, args):
    n, maxlen = (250, 40) if run.tier == "quick" else (3000, 40)
    n *= run.scale
    rc, msg = gen_table()
    if rc != 0:
        violation(run, {"broken": "translator cannot read table.rs", "detail": msg}, nofail=True)
    ok, log = build_c()
    run.oblige("C-binding driver builds against /repo/bindings/c", ok, log[-400:] if not ok else "")
    if not ok:
        violation(run, {"broken": "the driver does not build against /repo/bindings/c", "detail": log[-3000:]}, nofail=True)
    source_tie(run, ("cbind",))
    rc, out, _ = make(["model/CBindCheck.vo"])
    if rc != 0:
        violation(run, {"broken": "model files do not build", "detail": out[-3000:]}, nofail=True)
    exe = os.path.join(HARNESS_C, "target", "release", "ce_cbind")
    p = subprocess.run([exe, "run", str(run.seed), str(n), str(maxlen)], stdout=subprocess.PIPE, stderr=subprocess.PIPE, timeout=1500, env=ENV)
    if p.returncode != 0:
        violation(run, {"broken": "driver failed", "detail": p.stderr.decode()[-2000:]}, nofail=True)
    lines = read_jsonl(p.stdout.decode())
    head, recs = lines[0], lines[1:]
    asan_note = "not run in this tier"
    if run.tier == "thorough":
        oka, loga = build_c(asan=True)
        if oka:
            exe_a = os.path.join(HARNESS_C, "target_asan", "x86_64-unknown-linux-gnu", "release", "ce_cbind")
            env = dict(ENV, ASAN_OPTIONS="detect_leaks=1:abort_on_error=1")
            pa = subprocess.run([exe_a, "run", str(run.seed), str(min(n, 600)), str(maxlen)], stdout=subprocess.PIPE, stderr=subprocess.PIPE, timeout=3000, env=env)
            arecs = read_jsonl(pa.stdout.decode())[1:]
            bad = [r for r in arecs if r["died"] or r["exit"] != 0]
            asan_note = "%d sequences under AddressSanitizer (leak detection on), %d reported a problem" % (len(arecs), len(bad))
            run.oblige("AddressSanitizer build: no invalid access, double free or leak on contract-following sequences", not bad, asan_note)
            if bad:
                violation(run, {"failing_input": bad[0], "what": "the sanitizer build of the driver died or exited non-zero on a contract-following sequence"})
        else:
            asan_note = "ASan build unavailable: " + loga[-200:]
    header = HEADER + "\nDefinition probes : list str := [%s].\n" % "; ".join(cs(s) for s in head["probes"])
    items = []
    for r in recs:
        calls = r["ops"][:len(r["obs"])] if r["died"] else r["ops"]
        items.append("mkCS %d%%N [%s]\n  [%s] %s %s" % (r["id"], "; ".join(call_term(o) for o in calls), ";\n   ".join(obs_term(o) for o in r["obs"]),
                                                       "true" if r["died"] else "false", "true" if r["exit"] == 0 else "false"))
    evals = ["csids_where (fun s => negb (cb_tie probes s)) cases", "csids_where (fun s => negb (cb_holds s)) cases", "csids_where cb_nontrivial cases"]
    res, errors = eval_shards("C17", header, items, "cseq", evals, shard=12)
    by_id = {r["id"]: r for r in recs}
    ops = Counter(o["op"] for r in recs for o in r["ops"])
    codes_seen = Counter(o.get("code") for r in recs for o in r["obs"] if "code" in o)
    run.cov.update({"evaluations": len(recs), "calls": sum(len(r["ops"]) for r in recs), "distinct_nontrivial": len(set(res[2])),
                    "rule": "contract-following call sequences of 1..%d calls plus the closing frees, generated interactively against the library's own answers "
                            "(only live handles, each freed once, add/subtract never alias); string arguments: valid and malformed formulas / specifications, "
                            "1 in 10 with an inserted non-UTF-8 byte; each sequence runs in a child process; after every call the return code, the nullness "
                            "of the out-pointer and mass + six string reads of every live handle are recorded; non-trivial = at least 5 calls" % maxlen,
                    "op_histogram": dict(ops), "return_codes": {str(k): v for k, v in codes_seen.items()},
                    "children_that_died": sum(1 for r in recs if r["died"]), "address_sanitizer": asan_note,
                    "traces_validated_against_impl": len(recs) - len(res[0])})
    run.samples = [{"id": r["id"], "ops": [{k: v for k, v in o.items() if k != "text"} for o in r["ops"][:8]]} for r in recs[:3]]
    # allocation accounting (counting allocator in the child, sampled around each call into the binding): a call that reports
    # an error, and every read, leaves the heap as it found it; once every handle has been freed nothing the library
    # allocated during the sequence is still live
    leaks = []
    for r in recs:
        if r["died"]:
            continue
        tb = sum(o.get("dbytes", 0) for o in r["obs"]); tk = sum(o.get("dblocks", 0) for o in r["obs"])
        all_freed = bool(r["obs"]) and all(x is None for x in r["obs"][-1].get("snap", [None]))
        per_call = [i for i, o in enumerate(r["obs"]) if (o.get("code", 0) != 0 or o["op"] in ("get", "mass")) and (o.get("dbytes", 0) != 0 or o.get("dblocks", 0) != 0)]
        if per_call or (all_freed and (tb != 0 or tk != 0)):
            leaks.append({"id": r["id"], "calls_leaving_memory_behind": per_call[:5], "live_bytes_after_all_freed": tb, "live_blocks_after_all_freed": tk})
    run.cov["allocation_accounting"] = {"sequences": len(recs), "leaking": len(leaks),
                                        "rule": "bytes/blocks live in the child sampled immediately before and after each call into the binding"}
    run.oblige("allocation accounting: failing calls and reads leave the heap unchanged; nothing stays allocated once every handle is freed", not leaks,
               "%d sequences" % len(leaks))
    run.oblige("case files evaluate", not errors, errors[0][1][-300:] if errors else "")
    run.oblige("correspondence: handle-table model = the real extern \"C\" functions after every call", not res[0], "%d sequences differ" % len(res[0]))
    run.oblige("every call returned 0 with the Rust effect or non-zero with the handle set untouched; no abort; all handles freed", not res[1], "")
    broken = standard_proof_obligations(run, "C17", THEOREMS) if THEOREMS else []
    broken += source_corollaries(run, "C17s", ["C17s_no_abort", "C17s_errors_change_nothing", "C17s_no_use_after_free", "C17s_nonvacuous"], ("cbind",))
    if leaks:
        violation(run, {"failing_input": dict(by_id[leaks[0]["id"]], accounting=leaks[0]),
                        "what": "a call into the binding that reported an error (or a read) left memory allocated, or memory allocated by the "
                                "library is still live after every handle was freed (a leak no later call can observe)", "all": leaks[:20]})
    if errors:
        violation(run, {"broken": "case file does not evaluate", "detail": errors[0][1]}, nofail=True)
    if res[1]:
        violation(run, {"failing_input": by_id[res[1][0]], "what": "the child aborted / exited non-zero, an error path changed the handle set or left a "
                        "non-null out-pointer, parse_formula disagreed with the reference grammar, or a handle survived the closing frees", "all_failing_ids": res[1][:40]})
    if res[0]:
        # the property says each call "has the same effect as the corresponding Rust operation"; the handle-table model IS
        # those operations (Comp/Formula/ESpec models, each tied to the Rust API by its own check), so a sequence on which
        # the binding's observable results differ from it is a failing input of C17, not just a broken correspondence
        violation(run, {"failing_input": by_id[res[0][0]], "what": "return codes, out-pointer nullness, or the mass / counts read back through the "
                        "binding differ from the corresponding Rust operations applied to the same handles", "all_failing_ids": res[0][:40]})
    if broken:
        violation(run, {"broken": broken[0][0], "detail": broken[0][1], "all_broken": [b[0] for b in broken]}, nofail=True)
    run.finish(0)
    print("C17 ok: %d sequences (%d calls), %d obligations" % (len(recs), run.cov["calls"], len(run.obligations)))
