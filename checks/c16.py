"""C16 -- element-specification text and string-keyed access are total and consistent."""
from collections import Counter
from tools.vlib import *
from checks.formlib import cs
from checks import formlib

HEADER = """From Coq Require Import ZArith NArith List Bool String.
From CE Require Import Str Comp ESpec ESpecCheck.
Import ListNotations."""
THEOREMS = ["C16_parse_total", "C16_parse_sound", "C16_roundtrip", "C16_index_str", "C16_table_roundtrip"]


def eout(o):
    if o == "panic":
        return "EP"
    if "err" in o:
        return "(EE %d%%nat)" % o["err"]
    return "(EO %s %d%%N)" % (cs(o["ok"][0]), o["ok"][1])


def run(run, args):
    L, nrand = (3, 3000) if run.tier == "quick" else (4, 60000)
    nrand *= run.scale
    ok, log = build_harness()
    run.oblige("harness builds against /repo", ok, log[-400:] if not ok else "")
    if not ok:
        violation(run, {"broken": "correspondence harness does not build against /repo", "detail": log[-3000:]}, nofail=True)
    rc, msg = gen_table()
    if rc != 0:
        violation(run, {"broken": "translator cannot read table.rs", "detail": msg}, nofail=True)
    source_tie(run, ("espec", "element"))
    rc, out, _ = make(["model/ESpecCheck.vo"])
    if rc != 0:
        violation(run, {"broken": "model files do not build", "detail": out[-3000:]}, nofail=True)
    recs, comp = [], None
    for mode, n, base in [("exh", L, 0), ("rand", nrand, 10000000)]:
        rc, out, err, dt = run_harness(["espec", mode, run.seed, n], timeout=900)
        if rc != 0:
            violation(run, {"broken": "harness `espec %s` failed" % mode, "detail": err[-2000:]}, nofail=True)
        lines = read_jsonl(out)
        comp = lines[0]["comp"]
        for r in lines[1:]:
            r["id"] += base
            r["mode"] = mode
            recs.append(r)
    rc, out, err, dt = run_harness(["espec", "pairs"], timeout=300)
    pairs = read_jsonl(out)[1:]
    header = HEADER + "\nDefinition comp : ents := [%s].\n" % "; ".join("((%s, %d%%N), (%d)%%Z)" % (cs(s), i, n) for s, i, n in comp)
    items = ["mkEC %d%%N %s [%s] [%s]" % (r["id"], cs(r["s"]), "; ".join(eout(o) for o in r["parse"]),
                                          "; ".join("(%d)%%Z" % z for z in r["reads"])) for r in recs]
    evals = ["eids_where (fun c => negb (e_tie comp c)) cases", "eids_where (fun c => negb (e_holds comp c)) cases",
             "eids_where (fun c => negb (e_kind c)) cases", "eids_where e_nontrivial cases"]
    res, errors = eval_shards("C16", header, items, "ecase", evals, shard=2500)
    pitems = ["mkPCs %d%%N %s %d%%N %s %s %s %s" % (p["id"], coq_str(p["pair"][0]), p["pair"][1], cs(p["text"]), eout(p["back"]), cs(p["json"]), eout(p["de"]))
              for p in pairs]
    pres, perrors = eval_shards("C16_pairs", HEADER, pitems, "pcase",
                                ["pids_where (fun c => negb (p_tie c)) cases", "pids_where (fun c => negb (p_holds c)) cases",
                                 "[N.of_nat (List.length table_pairs)]"], shard=1000)
    errors += perrors
    by_id = {r["id"]: r for r in recs}
    outs = Counter("panic" if r["parse"][0] == "panic" else ("ok" if "ok" in r["parse"][0] else "err%d" % r["parse"][0]["err"]) for r in recs)
    run.cov.update({"evaluations": len(recs) + len(pairs), "distinct_nontrivial": len(set(res[3])) + len(pairs),
                    "rule": "all %d (element, isotope-or-none) pairs of the table rendered, parsed back and round-tripped through serde_json; every string "
                            "up to length %d over a 19-character alphabet {C H l c A 1 3 0 [ ] e-acute 4-byte-digit space + * e U u o} (exhaustive) and random / "
                            "one-edit-mutated specifications, each parsed through 4 entry points (parse, FromStr, parse_with, ChemicalElements::parse_element) and used as a read key (index and get_str) on list, map and "
                            "both enum forms of {C:2, C[13]:5, H:7, Cl[37]:3, Ac:4, Uuo:6, H+:8}; non-trivial = accepted or longer than 2" % (len(pairs), L),
                    "modes": dict(Counter(r["mode"] for r in recs)), "parse_outcomes": dict(outs), "table_pairs_model": pres[2][0] if pres[2] else None,
                    "error_kind_differences_model_vs_impl": len(res[2]),
                    "traces_validated_against_impl": len(recs) + len(pairs) - len(res[0]) - len(pres[0])})
    run.samples = [{"s": r["s"], "parse": r["parse"], "reads": r["reads"]} for r in recs[100:104]] + [pairs[2], pairs[-1]]
    run.oblige("case files evaluate", not errors, errors[0][1][-300:] if errors else "")
    run.oblige("every table pair is enumerated by the harness as by the model", bool(pres[2]) and pres[2][0] == len(pairs),
               "model %s, harness %d" % (pres[2][:1], len(pairs)))
    run.oblige("correspondence: model = implementation (parse outcome and all 8 reads) on every string; rendering on every pair", not res[0] and not pres[0],
               "%d strings, %d pairs differ" % (len(res[0]), len(pres[0])))
    run.oblige("specification holds on every implementation outcome", not res[1] and not pres[1], "")
    # the same verdicts by the extracted evaluator over every longer string; cross-checked against vm_compute on the short ones
    ok, log = formlib.build_extracted()
    run.oblige("extracted evaluator builds (Extraction of ESpecCheck verdict, ExtrOcamlBasic only)", ok, log[-400:] if not ok else "")
    if not ok:
        violation(run, {"broken": "extraction of the element-specification model", "detail": log}, nofail=True)
    top = 5 if run.tier == "quick" else 6
    jobs = [(0, 3)] + [(k, n) for n in range(4, top + 1) for k in range(1, 20)]
    total, xtie, xholds, _, xerr = formlib.extracted_sweep(jobs, sub="espec")
    run.oblige("extracted sweep ran", not xerr, xerr)
    if xerr:
        violation(run, {"broken": "extracted sweep", "detail": xerr}, nofail=True)
    vm_tie = {by_id[i]["s"] for i in res[0] if by_id[i]["mode"] == "exh" and len(by_id[i]["s"]) <= 3}
    vm_holds = {by_id[i]["s"] for i in res[1] if by_id[i]["mode"] == "exh" and len(by_id[i]["s"]) <= 3}
    ex_tie = {r["s"] for r in xtie if len(r["s"]) <= 3}
    ex_holds = {r["s"] for r in xholds if len(r["s"]) <= 3}
    same = vm_tie == ex_tie and vm_holds == ex_holds
    run.oblige("extracted evaluator and vm_compute give the same verdicts on every string of length <= 3", same,
               "tie %d/%d holds %d/%d" % (len(vm_tie), len(ex_tie), len(vm_holds), len(ex_holds)))
    run.cov["extracted_sweep"] = {"strings": total, "max_length_exhaustive": top, "tie_mismatches": len(xtie), "spec_failures": len(xholds), "shards": len(jobs)}
    run.cov["rule"] += "; additionally EVERY string of length <= %d over that alphabet (%d strings) judged by the extracted evaluator" % (top, total)
    run.oblige("specification holds on every implementation outcome of the extracted sweep", not xholds, "%d fail" % len(xholds))
    run.oblige("correspondence on the extracted sweep", not xtie, "%d differ" % len(xtie))
    broken = standard_proof_obligations(run, "C16", THEOREMS) if THEOREMS else []
    broken += source_corollaries(run, "C16s", ["C16s_parse_total", "C16s_parse_with_sound", "C16s_parse_sound", "C16s_roundtrip", "C16s_parse_sound_built", "C16s_table_roundtrip"],
                                 ("espec",))
    if xholds:
        violation(run, {"failing_input": xholds[0], "composition": comp, "found_by": "extracted exhaustive sweep",
                        "what": "a parse panicked or accepted text that is not `symbol` / `symbol[isotope the element has]`, or a string-keyed read "
                                "panicked or returned something other than the denoted entry's count", "all_failing": [h["s"] for h in xholds[:40]]})
    if errors:
        violation(run, {"broken": "case file does not evaluate", "detail": errors[0][1]}, nofail=True)
    if pres[1]:
        violation(run, {"failing_input": pairs[pres[1][0]], "what": "a table pair does not round-trip through its text / serde form"})
    if res[1]:
        violation(run, {"failing_input": by_id[res[1][0]], "composition": comp,
                        "what": "a parse panicked or accepted text that is not `symbol` / `symbol[isotope the element has]`, or a string-keyed read "
                                "panicked or returned something other than the denoted entry's count", "all_failing_ids": res[1][:40]})
    if bool(pres[2]) and pres[2][0] != len(pairs):
        violation(run, {"broken": "pair enumeration differs between table model and runtime table"}, nofail=True)
    if not same:
        violation(run, {"broken": "extracted evaluator disagrees with vm_compute", "tie": sorted(vm_tie ^ ex_tie)[:20], "holds": sorted(vm_holds ^ ex_holds)[:20]}, nofail=True)
    if xtie:
        violation(run, {"broken": "correspondence model/implementation (extracted sweep)", "tie_breaking_case": xtie[0], "all": [t["s"] for t in xtie[:40]]}, nofail=True)
    if res[0] or pres[0]:
        violation(run, {"broken": "correspondence model/implementation", "tie_breaking_case": by_id[res[0][0]] if res[0] else pairs[pres[0][0]]}, nofail=True)
    if broken:
        violation(run, {"broken": broken[0][0], "detail": broken[0][1], "all_broken": [b[0] for b in broken]}, nofail=True)
    run.finish(0)
    print("C16 ok: %d strings + %d table pairs, %d obligations" % (len(recs), len(pairs), len(run.obligations)))
