"""Shared by C13 and C14: turn harness `peak` records into Coq pcase terms and run them."""
from tools.vlib import *

HEADER = """From Coq Require Import ZArith NArith List Bool Floats.
From CE Require Import Num NumFloat NumFloat64 Peak PeakCheck.
Import ListNotations. Open Scope float_scope."""


def pk(p):
    return "mkPeak %s %s" % (coq_f(p[0]), coq_f(p[1]))


def tip(peaks, origin):
    return "(mkTip %s %s)" % (coq_list([pk(p) for p in peaks]), coq_f(origin))


def out_term(o):
    if o == "panic":
        return "OutPanic"
    if isinstance(o, str):
        return "(OutF %s)" % coq_f(o)
    if isinstance(o, list):
        return "(OutTips %s)" % coq_list([tip(t["peaks"], t["origin"]) for t in o])
    if "peaks" in o:
        return "(OutTip %s)" % tip(o["peaks"], o["origin"])
    def ob(v):
        return "None" if v is None else "(Some %s)" % ("true" if v else "false")
    return "(OutBools %s %s %s)" % (ob(o["ab"]), ob(o["ba"]), ob(o["slice"]))


def op_term(r):
    a = r["args"]
    op = r["op"]
    if op == "normalize": return "OpNormalize"
    if op == "total": return "OpTotal"
    if op == "scale_by": return "(OpScale %s)" % coq_f(a[0])
    if op == "shift": return "(OpShift %s)" % coq_f(a[0])
    if op == "clone_shifted": return "(OpCloneShifted %s)" % coq_f(a[0])
    if op == "truncate_after": return "(OpTrunc %s)" % coq_f(a[0])
    if op == "ignore_below": return "(OpIgnore %s)" % coq_f(a[0])
    if op == "fused": return "(OpFused %s %s %s)" % tuple(coq_f(x) for x in a)
    if op == "clone_drop_last": return "OpDropLast"
    if op == "slice": return "(OpSlice %d %d)" % (a[0], a[1])
    if op == "incremental": return "(OpIncr %s)" % coq_f(a[0])
    if op == "eq": return "(OpEq %s)" % coq_list([pk(p) for p in r["b"]])
    raise ValueError(op)


def case_term(r):
    # zero-slack judgement only where every sum the operation decides on is exactly representable: dyadic intensities
    # for the raw cumulative sums; for the truncation iterator (which works on the normalised template) only the dyadic
    # family that sums to exactly 1, where normalising changes nothing
    exact = "true" if (r["fam"] == 3 or (r["fam"] == 4 and r["op"] != "incremental")) else "false"
    step = out_term(r["stepwise"]) if "stepwise" in r else "OutPanic"
    return "mkPC %d %s %s %s %s %s" % (r["id"], exact, tip(r["pat"], r["origin"]), op_term(r), out_term(r["out"]), step)


def run_peak(run, group, n):
    ok, log = build_harness()
    run.oblige("harness builds against /repo", ok, log[-400:] if not ok else "")
    if not ok:
        violation(run, {"broken": "correspondence harness does not build against /repo", "detail": log[-3000:]}, nofail=True)
    source_tie(run, ("peak",))
    rc, out, _ = make(["model/PeakCheck.vo"])
    if rc != 0:
        violation(run, {"broken": "model files do not build", "detail": out[-3000:]}, nofail=True)
    corpus = []
    cdir = os.path.join(VERIF, "corpus", run.prop)
    if os.path.isdir(cdir):
        for f in sorted(os.listdir(cdir)):
            corpus += read_jsonl(open(os.path.join(cdir, f)).read())
    rc, out, err, dt = run_harness(["peak", run.seed, n, group])
    if rc != 0:
        violation(run, {"broken": "harness `peak` failed", "detail": err[-2000:]}, nofail=True)
    recs = read_jsonl(out)
    for i, r in enumerate(corpus):
        r["id"] = 1000000 + i
    recs = corpus + recs
    items = [case_term(r) for r in recs]
    evals = ["ids_where (fun c => negb (tie_bits c)) cases", "ids_where (fun c => negb (tie_tol c)) cases",
             "ids_where (fun c => negb (holds_on c)) cases", "ids_where nontrivial cases"]
    res, errors = eval_shards(run.prop + "_peak", HEADER, items, "pcase", evals, shard=60)
    return recs, res, errors


def summarize(run, recs, res):
    from collections import Counter
    ops = Counter(r["op"] for r in recs)
    fams = Counter(str(r["fam"]) for r in recs)
    lens = Counter(min(len(r["pat"]) // 8 * 8, 64) for r in recs)
    run.cov.update({"evaluations": len(recs), "distinct_nontrivial": len(set(res[3])),
                    "rule": "patterns from 6 families (0 Poisson output, 1 BRAIN output, 2 random positive, 3 dyadic summing to 1, "
                            "4 dyadic unnormalised, 5 random normalised) with thresholds placed below/between/exactly on/one ulp around "
                            "cumulative sums or intensities, at/above the total, zero, negative; non-trivial = pattern with >= 2 peaks; "
                            "ids are distinct generator draws",
                    "ops": dict(ops), "families": dict(fams), "length_histogram": {str(k): v for k, v in sorted(lens.items())},
                    "tie_bitwise_mismatches": len(res[0]), "tie_tolerance_mismatches": len(res[1]),
                    "traces_validated_against_impl": len(recs) - len(res[1])})
    run.samples = [{k: r[k] for k in ("id", "op", "fam", "args")} | {"pattern_len": len(r["pat"])} for r in recs[:6]]
