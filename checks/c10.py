"""C10 -- charge only rescales m/z; charge 0 means neutral masses."""
from collections import Counter
from tools.vlib import *
from checks import brainlib, c11, c15

THEOREMS = ["C10_poisson", "C10_convolution", "C10_charge_zero", "C10_brain", "C10_inverse", "C10_formula", "C10_nonvacuous"]
HEADER = """From Coq Require Import ZArith NArith List Bool Floats.
From CE Require Import NumFloat ChargeCheck.
Import ListNotations. Open Scope float_scope."""
PROTON = "0x1.01dcd7060bb2cp+0"


def pk(o):
    return "None" if o == "panic" else "(Some [%s])" % "; ".join("(%s, %s)" % (coq_f(p[0]), coq_f(p[1])) for p in o)


def run(run, args):
    n = (60 if run.tier == "quick" else 600) * run.scale
    brainlib.prepare(run)
    source_tie(run, ("mz", "poisson", "convolution", "peak"))
    rc, out, _ = make(["model/ChargeCheck.vo", "model/ConvCheck.vo", "model/PoissonCheck.vo"])
    if rc != 0:
        violation(run, {"broken": "model files do not build", "detail": out[-3000:]}, nofail=True)
    # the three generators
    rc, o1, e1, _ = run_harness(["brain", "c10", run.seed, n], timeout=900)
    rc2, o2, e2, _ = run_harness(["conv", run.seed, n, 150, 1500], timeout=900)
    rc3, o3, e3, _ = run_harness(["poisson", run.seed, n, "charge"], timeout=900)
    rc4, o4, e4, _ = run_harness(["brain", "mz", run.seed, n // 2], timeout=900)
    if rc4:
        violation(run, {"broken": "harness failed", "detail": e4[-2000:]}, nofail=True)
    mrecs = read_jsonl(o4)[1:]
    if rc or rc2 or rc3:
        violation(run, {"broken": "harness failed", "detail": (e1 + e2 + e3)[-2000:]}, nofail=True)
    brecs = read_jsonl(o1)[1:]
    crecs = [r for r in read_jsonl(o2) if "neutral" in r]
    precs = read_jsonl(o3)
    zitems, src = [], {}
    for r in brecs:
        zid = len(zitems); src[zid] = ("coarse", r)
        zitems.append("mkZC %d%%N (%d)%%Z %s %s %s" % (zid, r["charge"], coq_f(r["carrier"]), pk(r["out"]), pk(r["neutral"])))
    for r in brecs:
        g2 = r.get("gen2")
        if g2:
            zid = len(zitems); src[zid] = ("coarse, through one long-lived generator object (first of two consecutive calls that differ only in the carrier)", r)
            zitems.append("mkZC %d%%N (%d)%%Z %s %s %s" % (zid, r["charge"], coq_f(r["carrier"]), pk(g2["first"]), pk(g2["neutral"])))
            zid = len(zitems); src[zid] = ("coarse, through one long-lived generator object (second of two consecutive calls that differ only in the carrier: carrier2)", r)
            zitems.append("mkZC %d%%N (%d)%%Z %s %s %s" % (zid, r["charge"], coq_f(g2["carrier2"]), pk(g2["second"]), pk(g2["neutral"])))
    for r in crecs:
        zid = len(zitems); src[zid] = ("convolution", r)
        zitems.append("mkZC %d%%N (%d)%%Z %s %s %s" % (zid, r["charge"], coq_f(r["carrier"]), pk(r["out"]), pk(r["neutral"])))
    for r in precs:
        zid = len(zitems); src[zid] = ("poisson", r)
        zitems.append("mkZC %d%%N (%d)%%Z %s %s %s" % (zid, r["z"], PROTON, pk(r["out"]), pk(r["neutral"])))
    res, errors = eval_shards("C10", HEADER, zitems, "zcase", ["zids_where (fun c => negb (charge_rel c)) cases"], shard=40)
    # correspondence of the three models on the charged runs
    tb, eb = eval_shards("C10_b", brainlib.HEADER, [brainlib.case_term(r) for r in brecs], "bcase",
                         ["bids_where (fun c => negb (b_tie f_tol12 c)) cases"], shard=10)
    tc, ec = eval_shards("C10_c", c11.HEADER, [c11.case_term(r) for r in crecs], "ccase",
                         ["cids_where (fun c => negb (c_tie f_tol c)) cases"], shard=8)
    tp, ep = eval_shards("C10_p", c15.HEADER, ["QApprox %d %s %d (%d)%%Z %s" % (r["id"], coq_f(r["mass"]), r["n"], r["z"],
                         "None" if r["out"] == "panic" else "(Some %s)" % coq_list(["mkPeak %s %s" % (coq_f(p[0]), coq_f(p[1])) for p in r["out"]]))
                         for r in precs], "qcase", ["qids_where (fun c => negb (q_tie f_tol c)) cases"], shard=30)
    mres, em = eval_shards("C10_mz", HEADER, ["mkMZ %d%%N %s (%d)%%Z %s %s %s %s" % (r["id"], coq_f(r["m"]), r["z"], coq_f(r["carrier"]),
                           coq_f(r["mcr"]), coq_f(r["inv"]), coq_f(r["nm"])) for r in mrecs], "mzcase",
                           ["mzids_where (fun c => negb (mz_tie c)) cases", "mzids_where (fun c => negb (mz_holds c)) cases"], shard=120)
    errors = errors + eb + ec + ep + em
    charges = Counter(src[i][1].get("charge", src[i][1].get("z")) for i in src)
    run.cov.update({"evaluations": len(zitems), "distinct_nontrivial": sum(1 for i in src if src[i][1]["out"] != "panic" and len(src[i][1]["out"]) > 1),
                    "rule": "each of the three generators (coarse: compositions over faithfully read elements with random requests; convolution: small "
                            "compositions with thresholds; Poisson: masses up to 1e7, 1-60 peaks) run at a charge in -8..8 (non-zero) and at charge 0 with the "
                            "same arguments, carriers {proton, sodium, electron, 0}; checked: same length, same intensities, m/z = (m + z*carrier)/|z| of the "
                            "neutral mass (1e-9); non-trivial = more than one peak",
                    "direct_conversion_calls": {"n": len(mrecs), "rule": "mass_charge_ratio and neutral_mass of mz.rs on random masses (up to 1e6), every "
                                                "non-zero charge -8..8, carriers {proton, sodium, electron, 0}: both formulas and the round trip (1e-12)",
                                                "charges": dict(Counter(str(r["z"]) for r in mrecs)), "tie_mismatches": len(mres[0])},
                    "generators": dict(Counter(src[i][0] for i in src)), "charge_histogram": {str(k): v for k, v in sorted(charges.items())},
                    "traces_validated_against_impl": len(zitems) - len(tb[0]) - len(tc[0]) - len(tp[0])})
    run.samples = [{"generator": src[i][0], "charge": src[i][1].get("charge", src[i][1].get("z")), "n_peaks": len(src[i][1]["out"])} for i in list(src)[:3] + list(src)[-3:]]
    run.oblige("case files evaluate", not errors, errors[0][1][-300:] if errors else "")
    run.oblige("correspondence: the three models = implementation on the charged runs", not (tb[0] or tc[0] or tp[0]),
               "coarse %d, convolution %d, poisson %d differ" % (len(tb[0]), len(tc[0]), len(tp[0])))
    run.oblige("charged pattern = neutral pattern with converted m/z, for all three generators", not res[0], "")
    run.oblige("correspondence: Mz.v = mz.rs bit for bit on the direct conversion calls", not mres[0], "%d differ" % len(mres[0]))
    run.oblige("neutral_mass inverts mass_charge_ratio, and both are the stated formulas, on every direct call", not mres[1], "%d fail" % len(mres[1]))
    broken = standard_proof_obligations(run, "C10", THEOREMS) if THEOREMS else []
    # "only": intensities and peak counts are the same at every charge (corollaries of the rescaling theorems)
    broken += standard_proof_obligations(run, "C10a", ["C10a_poisson_frame", "C10a_convolution_frame", "C10a_convolution_two_charges", "C10a_brain_frame"])
    broken += source_corollaries(run, "C10s", ['C10s_inverse', 'C10s_formula', 'C10s_charge_zero', 'C10s_poisson', 'C10s_brain', 'C10s_convolution'], ('mz', 'poisson', 'brain', 'convolution', 'peak'))
    # floating-point level: neutral_mass o mass_charge_ratio in rounded arithmetic, and its binary64 instance
    broken += standard_proof_obligations(run, "C10f", ["C10_inverse_rounded", "C10_binary64_std_ext", "C10_inverse_binary64", "C10_float_nonvacuous"],
                                         allowed_axioms=STD_FLOAT_AXIOMS)
    if mres[1]:
        r = {x["id"]: x for x in mrecs}[mres[1][0]]
        violation(run, {"failing_input": dict(r, function="mass_charge_ratio / neutral_mass"),
                        "what": "mass_charge_ratio is not (m + z*carrier)/|z|, or neutral_mass is not mz*|z| - z*carrier, or the second does not undo the first",
                        "all_failing": mres[1][:40]})
    if errors:
        violation(run, {"broken": "case file does not evaluate", "detail": errors[0][1]}, nofail=True)
    if res[0]:
        g, r = src[res[0][0]]
        violation(run, {"failing_input": dict(r, generator=g), "what": "the pattern at charge z is not the neutral pattern with m/z = (m + z*carrier)/|z|",
                        "all_failing": [(src[i][0], src[i][1]["id"]) for i in res[0][:30]]})
    if tb[0] or tc[0] or tp[0] or mres[0]:
        violation(run, {"broken": "correspondence model/implementation", "coarse": tb[0][:10], "convolution": tc[0][:10], "poisson": tp[0][:10],
                        "mz_direct": mres[0][:10]}, nofail=True)
    if broken:
        violation(run, {"broken": broken[0][0], "detail": broken[0][1], "all_broken": [b[0] for b in broken]}, nofail=True)
    run.finish(0)
    print("C10 ok: %d charged/neutral pairs, %d obligations" % (len(zitems), len(run.obligations)))
