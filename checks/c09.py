"""C09 -- coarse patterns are well-shaped and honour the requested peak count."""
from collections import Counter
from tools.vlib import *
from checks import brainlib
from checks.c03 import classify

THEOREMS = ["C09_shape", "C09_fixed", "C09_nonpositive", "C09_default", "C09_fraction", "C09_clamp", "C09_sum"]
EVALS = ["bids_where (fun c => negb (b_tie f_same c)) cases", "bids_where (fun c => negb (b_tie f_tol12 c)) cases",
         "map (fun c => N.of_nat (c09_code c)) cases", "bids_where b_nontrivial cases"]


def run(run, args):
    n = (24 if run.tier == "quick" else 300) * run.scale
    brainlib.prepare(run)
    rc, out, err, dt = run_harness(["brain", "c09", run.seed, n], timeout=1200)
    if rc != 0:
        violation(run, {"broken": "harness `brain c09` failed", "detail": err[-2000:]}, nofail=True)
    lines = read_jsonl(out)
    head, recs = lines[0], lines[1:]
    res, errors = eval_shards("C09", brainlib.HEADER, [brainlib.case_term(r) for r in recs], "bcase", EVALS, shard=8, timeout=1500)
    # a request by signal fraction = a fixed request for the Poisson estimate of the fraction
    alts = [r for r in recs if "alt_fixed" in r]
    pair_items = ["(%d%%N, %s, %s)" % (r["id"], brainlib.peaks_term(r["out"]), brainlib.peaks_term(r["alt_fixed"]["out"])) for r in alts]
    pres, perrors = eval_shards("C09_alt", brainlib.HEADER, pair_items, "(N * option fpeaks * option fpeaks)",
                                ["map (fun t => fst (fst t)) (filter (fun t => negb (out_agree f_tol12 (snd (fst t)) (snd t))) cases)"], shard=200)
    errors = errors + perrors
    by_id = {r["id"]: r for r in recs}
    ids = [r["id"] for r in recs]
    run.oblige("case files evaluate", not errors, errors[0][1][-300:] if errors else "")
    if errors:
        violation(run, {"broken": "case file does not evaluate", "detail": errors[0][1]}, nofail=True)
    codes = dict(zip(ids, res[2]))
    known = {k: t for (k, t) in load_known("C09")}
    fails, knowns, undecided = [], {}, []
    for i in ids:
        if codes[i] == 2:
            undecided.append(i)
        if codes[i] != 1:
            continue
        ks = classify(head, by_id[i], known)
        if ks is None or i in res[1]:
            fails.append(i)
        else:
            for k in ks:
                knowns.setdefault(k, []).append(i)
    reqs = Counter(list(r["req"].keys())[0] for r in recs)
    run.cov.update({"evaluations": len(recs), "distinct_nontrivial": len(set(res[3])),
                    "rule": "compositions (glucose, K300, C2, Cl2 as the standing known finding, random ones over the elements BRAIN reads faithfully) x "
                            "request sweeps: i32 in -3..320 and the extremes, usize, Option, f32 fractions on a grid and at 0/1; charges {0,1,2,-1}; "
                            "checked: non-empty, finite, non-negative, strictly increasing m/z inside [lightest, heaviest isotopologue], at most the requested "
                            "number of variants, every variant of share >= 2e-10 present, intensities sum to 1 less the omitted share (exact expansion in "
                            "outward-rounded enclosures), signal-fraction request = fixed request for the Poisson estimate; non-trivial = more than one peak",
                    "request_kinds": dict(reqs), "spec_undecided_cases": len(undecided),
                    "fraction_vs_fixed_pairs": len(alts), "fraction_vs_fixed_mismatches": len(pres[0]),
                    "known_finding_cases": sum(len(v) for v in knowns.values()),
                    "tie_bitwise_mismatches": len(res[0]), "tie_tolerance_mismatches": len(res[1]),
                    "traces_validated_against_impl": len(recs) - len(res[1])})
    run.samples = [{k: r[k] for k in ("id", "ents", "req", "charge")} | {"n_peaks": len(r["out"]) if r["out"] != "panic" else "panic"} for r in recs[:8]]
    run.oblige("correspondence: model (binary64 instance) = implementation on every case", not res[1],
               "%d bitwise differences, %d beyond 1e-12" % (len(res[0]), len(res[1])))
    run.oblige("shape and request resolution hold on every implementation output outside the listed known findings", not fails, "")
    run.oblige("signal-fraction request = fixed request for the Poisson estimate", not pres[0], "")
    # the reusable generator object (one instance alive through the whole run) must answer every request as the free function does
    gen_diff = [r["id"] for r in recs if ("gen_out" in r and r["gen_out"] != r["out"]) or ("gen2_out" in r and r["gen2_out"] != r["out"])]
    run.cov["generator_entry_point"] = {"requests_through_one_long_lived_generator": sum(1 for r in recs if "gen_out" in r), "differing": len(gen_diff)}
    run.oblige("the long-lived generator object and the per-composition generator object return the free function's pattern for every request of the run (bit for bit)", not gen_diff,
               "%d differ" % len(gen_diff))
    broken = standard_proof_obligations(run, "C09", THEOREMS) if THEOREMS else []
    broken += source_corollaries(run, "C09s", ['C09s_fixed', 'C09s_nonpositive', 'C09s_default', 'C09s_guess', 'C09s_fraction', 'C09s_clamp', 'C09s_max_order'], ('mz', 'poisson', 'brain'))
    broken += standard_proof_obligations(run, "C09b", ["C09_center_bounds", "C09_center_between", "C09_element_sandwich", "C09_table_sane"])
    broken += standard_proof_obligations(run, "C09c", ["C09_center_ladder", "C09_center_ladder_between", "C09_center_strict", "C09_element_ladder",
                                                       "C09_ladder_gap", "C09_table_ladder", "C09_table_ladder_read", "C09_table_gap", "C09_glucose_strict"])
    for k in sorted(knowns):
        print("KNOWN-FINDING: property=C09 %s %s" % (k, known[k]))
    if gen_diff:
        i = gen_diff[0]
        violation(run, {"failing_input": dict(by_id[i], earlier_requests_on_the_same_generator=[{k: r[k] for k in ("ents", "req", "charge")} for r in recs if r["id"] < i][-6:]),
                        "what": "the reusable generator object, after the earlier requests of this run, does not return the pattern the free function returns for "
                                "this (composition, request): not the requested peaks / a panic", "all_failing_ids": gen_diff[:40]})
    if fails:
        violation(run, {"failing_input": by_id[fails[0]], "what": "the coarse pattern is ill-shaped or does not honour the request (see c09_code in "
                        "coq/model/BrainCheck.v: emptiness, order, mass bounds, length, omitted share, normalisation)", "all_failing_ids": fails[:40]})
    if pres[0]:
        violation(run, {"failing_input": by_id[pres[0][0]], "what": "a request by signal fraction differs from the fixed request for its Poisson estimate"})
    if res[1]:
        violation(run, {"broken": "correspondence model/implementation", "tie_breaking_case": by_id[res[1][0]], "all": res[1][:40]}, nofail=True)
    if broken:
        violation(run, {"broken": broken[0][0], "detail": broken[0][1], "all_broken": [b[0] for b in broken]}, nofail=True)
    run.finish(0)
    print("C09 ok: %d cases (%d in known-finding classes), %d obligations" % (len(recs), sum(len(v) for v in knowns.values()), len(run.obligations)))
