"""C03 -- the coarse pattern equals the exact aggregated isotope distribution."""
from collections import Counter
from tools.vlib import *
from checks import brainlib

THEOREMS = ["C03_brain_prob", "C03_brain_center", "C03_brain_defined", "C03_brain_prob_unconditional_refuted", "C03_table_ok", "C03_unfaithful_elements"]
THEOREMS_B = ["C03_pattern_exact"]
EVALS = ["bids_where (fun c => negb (b_tie f_same c)) cases", "bids_where (fun c => negb (b_tie f_tol12 c)) cases",
         "map (fun c => N.of_nat (c03_code c)) cases", "map (fun c => N.of_nat (c03_single_code c)) cases",
         "bids_where b_nontrivial cases"]


def classify(head, r, known):
    """the known-finding keys a failing case may be charged to (all must be listed), else None"""
    syms = [e[0] for e in r["ents"] if e[2] != 0]
    keys = []
    single = len(r["ents"]) == 1 and r["ents"][0][2] == 1
    for s in syms:
        if s in head["gap"]:
            keys.append("element:%s" % s)
        elif s in head["lighter"]:
            if single:
                keys.append("single-atom:%s" % s)
            else:
                return None
    if not keys:
        return None
    return keys if all(k in known for k in keys) else None


def run(run, args, prop="C03"):
    n = (110 if run.tier == "quick" else 1500) * run.scale
    brainlib.prepare(run)
    rc, out, err, dt = run_harness(["brain", "c03", run.seed, n], timeout=1200)
    if rc != 0:
        violation(run, {"broken": "harness `brain c03` failed", "detail": err[-2000:]}, nofail=True)
    lines = read_jsonl(out)
    head, recs = lines[0], lines[1:]
    res, errors = eval_shards("C03", brainlib.HEADER, [brainlib.case_term(r) for r in recs], "bcase", EVALS, shard=10, timeout=1500)
    by_id = {r["id"]: r for r in recs}
    ids = [r["id"] for r in recs]
    run.oblige("case files evaluate", not errors, errors[0][1][-300:] if errors else "")
    if errors:
        violation(run, {"broken": "case file does not evaluate", "detail": errors[0][1]}, nofail=True)
    codes = dict(zip(ids, res[2]))
    single = dict(zip(ids, res[3]))
    known = {k: t for (k, t) in load_known("C03")}
    fails, knowns, undecided = [], {}, []
    for i in ids:
        r = by_id[i]
        bad = codes[i] == 1 or (r["tag"] == "single" and single[i] == 1)
        if codes[i] == 2:
            undecided.append(i)
        if not bad:
            continue
        ks = classify(head, r, known)
        if ks is None or i in res[1]:
            fails.append(i)
        else:
            for k in ks:
                knowns.setdefault(k, []).append(i)
    tags = Counter(r["tag"] for r in recs)
    atoms = Counter(min(sum(e[2] for e in r["ents"]) // 500 * 500, 5000) for r in recs)
    run.cov.update({"evaluations": len(recs), "distinct_nontrivial": len(set(res[4])),
                    "rule": "every single atom of the table (default request) + random compositions of 1-5 elements (3 of 4 from elements whose "
                            "ladder BRAIN reads faithfully, 1 of 4 also from the gap elements), counts up to 200 (1 in 6: up to 3000), both "
                            "representations, rotated key order, the struct entry point IsotopicDistribution::from_composition(..).isotopic_variants(..) on every fifth, requests {default, fixed 1..300, usize, Option, f32 fraction}, charges -8..8, four carriers; "
                            "specification = exact polynomial expansion in outward-rounded binary64 enclosures; non-trivial = more than one peak returned",
                    "tags": dict(tags), "atom_count_histogram": {str(k): v for k, v in sorted(atoms.items())},
                    "spec_undecided_cases": len(undecided), "known_finding_cases": sum(len(v) for v in knowns.values()),
                    "tie_bitwise_mismatches": len(res[0]), "tie_tolerance_mismatches": len(res[1]),
                    "traces_validated_against_impl": len(recs) - len(res[1]),
                    "classes": {"faithful": len(head["faithful"]), "gap": head["gap"], "lighter": len(head["lighter"])}})
    run.samples = [{k: r[k] for k in ("id", "tag", "ents", "req", "charge", "rep")} for r in recs[120:126]]
    run.oblige("correspondence: model (binary64 instance) = implementation on every case", not res[1],
               "%d bitwise differences, %d beyond 1e-12" % (len(res[0]), len(res[1])))
    run.oblige("specification holds on every implementation output outside the listed known findings", not fails, "")
    broken = standard_proof_obligations(run, prop, THEOREMS) if THEOREMS else []
    if prop == "C03":
        broken += standard_proof_obligations(run, "C03b", THEOREMS_B)
    for k in sorted(knowns):
        print("KNOWN-FINDING: property=%s %s %s" % (prop, k, known[k]))
    if fails:
        r = by_id[fails[0]]
        violation(run, {"failing_input": r, "what": "peaks do not match the exact aggregated isotope distribution (mass 1e-6 Da / share 1e-9)",
                        "in_known_class_but_model_disagrees": fails[0] in res[1], "all_failing_ids": fails[:40]})
    if res[1]:
        violation(run, {"broken": "correspondence model/implementation", "tie_breaking_case": by_id[res[1][0]], "all": res[1][:40]}, nofail=True)
    if broken:
        violation(run, {"broken": broken[0][0], "detail": broken[0][1], "all_broken": [b[0] for b in broken]}, nofail=True)
    run.finish(0)
    print("%s ok: %d cases (%d in known-finding classes), %d obligations" % (prop, len(recs), sum(len(v) for v in knowns.values()), len(run.obligations)))
