"""C08 -- pattern generation is pure: caches and concurrency never change results."""
import re
from collections import Counter
from tools.vlib import *
from checks import brainlib

THEOREMS = ["C08_generator_pure", "C08_history_independent", "C08_table_ok", "C08_nonvacuous"]
FORBIDDEN_STATE = re.compile(r"\bstatic\s+mut\b|\bunsafe\b|\bCell\b|\bRefCell\b|\bMutex\b|\bRwLock\b|\bAtomic\w+\b|thread_local!|\bUnsafeCell\b|\bOnceCell\b")


def scan_shared_state():
    """syntactic obligation: the anchored files hold no interior mutability / unsafe shared state
    (LazyLock in table.rs is the one allowed lazily-initialised immutable)."""
    hits = []
    for f in ["src/isotopic_pattern/baffling.rs", "src/table.rs", "src/element.rs", "src/isotopic_pattern/poisson.rs", "src/mz.rs"]:
        p = os.path.join(REPO, f)
        try:
            for n, line in enumerate(open(p, encoding="utf-8", errors="replace"), 1):
                code = line.split("//")[0]
                m = FORBIDDEN_STATE.search(code)
                if m:
                    hits.append("%s:%d: %s" % (f, n, m.group(0)))
        except OSError as e:
            hits.append("%s: %s" % (f, e))
    return hits


def run(run, args):
    n = 3 if run.tier == "quick" else 4
    brainlib.prepare(run)
    rc, out, err, dt = run_harness(["brain", "c08", run.seed, n], timeout=1800)
    if rc != 0:
        violation(run, {"broken": "harness `brain c08` failed", "detail": err[-2000:]}, nofail=True)
    lines = read_jsonl(out)
    head, poolrec, hists = lines[0], lines[1], lines[2:]
    pool = poolrec["pool"]
    header = brainlib.HEADER + "\nDefinition pool : list bcase := [\n %s\n].\n" % ";\n ".join(brainlib.case_term(r) for r in pool)
    items = ["mkGH %d%%N [%s] [%s]" % (h["id"], "; ".join("%d%%nat" % i for i in h["h"]),
                                       "; ".join(brainlib.peaks_term(o) for o in h["outs"])) for h in hists]
    evals = ["ghids_where (fun g => negb (gh_tie f_tol12 pool g)) cases", "ghids_where (fun g => negb (gh_pure f_tol12 pool g)) cases",
             "ghids_where (fun g => negb (gh_pure f_same pool g)) cases", "bids_where (fun c => negb (b_tie f_tol12 c)) pool"]
    res, errors = eval_shards("C08", header, items, "ghist", evals, shard=max(8, len(items) // 16 + 1), timeout=1500)
    by_id = {h["id"]: h for h in hists}
    kinds = Counter(h["kind"] for h in hists)
    lens = Counter(min(len(h["h"]), 50) // 5 * 5 for h in hists)
    calls = sum(len(h["h"]) for h in hists)
    run.cov.update({"evaluations": calls, "histories": len(hists), "distinct_nontrivial": sum(1 for h in hists if len(set(h["h"])) > 1),
                    "rule": "a pool of 16 requests sharing elements at different sizes and orders (C6H12O6/5 peaks, C600H1200O600/40, C2/3, H2O/default, "
                            "C60N10S2/12, O30C/25, K20C300/99%%, C34H53N7O15/8, C5H11NO2Se/3, C10H20N2O4Se2/12, Sn2C4/2, the first request again with a sodium carrier, Ar3/4 and CaCO3/6 whose element numbers collide, C6H12O6/exactly 1 and H2O/50%% which resolve to a single peak); every history of length <= %d over the pool on one generator, random "
                            "histories of length 5..50, and 16 threads each interleaving generator and stateless calls; after every call the generator's peaks "
                            "are compared with the stateless function's; non-trivial = a history calling at least two different requests" % n,
                    "kinds": dict(kinds), "history_length_histogram": {str(k): v for k, v in sorted(lens.items())},
                    "bitwise_differences_generator_vs_stateless": len(res[2]),
                    "traces_validated_against_impl": len(hists) - len(res[0])})
    run.samples = [{"id": h["id"], "kind": h["kind"], "h": h["h"][:12]} for h in hists[:3] + hists[-3:]]
    run.oblige("case files evaluate", not errors, errors[0][1][-300:] if errors else "")
    run.oblige("correspondence: model generator (cache as state machine) = implementation generator along every history", not res[0] and not res[3],
               "%d histories, %d pool requests differ" % (len(res[0]), len(res[3])))
    run.oblige("generator = stateless function after every call of every history and thread", not res[1],
               "%d histories differ beyond 1e-12 (%d not bit for bit)" % (len(res[1]), len(res[2])))
    # concurrency: what each of the 16 threads got (from its generator and from the stateless function) must be what the
    # single-threaded stateless function returned for the same pooled request before the threads started
    single = poolrec["stateless"]
    thread_diff = [(h["id"], j) for h in hists if h["kind"] == "thread" for j, (i, o) in enumerate(zip(h["h"], h["outs"])) if o != single[i]]
    stress = [(h["id"], h.get("stress_first")) for h in hists if h["kind"] == "thread" and h.get("stress_mismatches", 0) > 0]
    run.cov["thread_stress"] = {"rounds_per_thread": max([h.get("stress_rounds", 0) for h in hists if h["kind"] == "thread"] or [0]), "threads": 16,
                                "rule": "two default-count requests of very different mass alternate out of phase across 16 threads; each answer is compared with the single-threaded one",
                                "mismatching_threads": len(stress)}
    run.oblige("16-thread stress: every answer equals the single-threaded one", not stress, "%d threads saw a wrong answer" % len(stress))
    run.cov["thread_vs_single_threaded_differences"] = len(thread_diff)
    run.oblige("every pattern returned inside the 16 concurrent threads equals the single-threaded stateless result (bit for bit)", not thread_diff,
               "%d differ" % len(thread_diff))
    hits = scan_shared_state()
    run.oblige("no interior mutability / unsafe shared state in the anchored files", not hits, "; ".join(hits[:4]))
    broken = standard_proof_obligations(run, "C08", THEOREMS) if THEOREMS else []
    # any number of threads, each with a private generator, under any schedule of atomic calls: every thread sees what it would see alone
    broken += standard_proof_obligations(run, "C08c", ["C08_interleaving_projection", "C08_interleaving_stateless", "C08_schedule_irrelevant"])
    if res[1]:
        h = by_id[res[1][0]]
        violation(run, {"failing_input": {"history_of_pool_indices": h["h"], "kind": h["kind"], "pool": [{k: r[k] for k in ("ents", "req", "charge", "carrier")} for r in pool],
                                          "generator_outputs": h["outs"], "stateless_outputs": poolrec["stateless"]},
                        "what": "after this call history the generator returns peaks that differ from the stateless function's", "all_failing": res[1][:40]})
    if stress:
        violation(run, {"failing_input": {"thread": by_id[stress[0][0]].get("thread"), "first_wrong_answer": stress[0][1], "schedule": "16 threads alternating H2O / C1274H1965N335O377S9 default requests"},
                        "what": "under concurrent use the stateless function returned a pattern that differs from its single-threaded answer", "threads": [x[0] for x in stress]})
    if thread_diff:
        hid, j = thread_diff[0]
        h = by_id[hid]
        violation(run, {"failing_input": {"thread": h.get("thread"), "call_index": j, "pool_request": {k: pool[h["h"][j]][k] for k in ("ents", "req", "charge", "carrier")},
                                          "returned_in_thread": h["outs"][j], "single_threaded": single[h["h"][j]]},
                        "what": "a pattern computed while 16 threads were running differs from the single-threaded result for the same request",
                        "all": thread_diff[:20]})
    if errors:
        violation(run, {"broken": "case file does not evaluate", "detail": errors[0][1]}, nofail=True)
    if hits:
        violation(run, {"broken": "shared mutable state appeared in the anchored files", "where": hits}, nofail=True)
    if res[0] or res[3]:
        violation(run, {"broken": "correspondence model/implementation", "tie_breaking_history": by_id[res[0][0]] if res[0] else None,
                        "tie_breaking_pool_request": res[3][:5]}, nofail=True)
    if broken:
        violation(run, {"broken": broken[0][0], "detail": broken[0][1], "all_broken": [b[0] for b in broken]}, nofail=True)
    run.finish(0)
    print("C08 ok: %d histories (%d calls), %d obligations" % (len(hists), calls, len(run.obligations)))
