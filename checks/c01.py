"""C01 -- a well-formed formula parses to exactly the atoms it denotes."""
from tools.vlib import *
from checks import formlib
from checks.c05 import gather, decide

THEOREMS = ["C01_parse_complete", "C01_nonvacuous"]


def run(run, args):
    formlib.prepare(run)
    recs = gather(run, [("gram", (2500 if run.tier == "quick" else 40000) * run.scale, 20000000)])
    res, errors = formlib.evaluate("C01", recs, shard=400)
    run.cov["rule"] = ("formulas generated from the documented grammar (depth <= 3, 1 in 10 up to 5; 1-6 items per level; symbols from the 119 "
                       "upper-case table symbols with a bias to a dozen common ones so keys repeat; tabulated isotopes incl. leading zeros; counts incl. "
                       "leading zeros and 0; every adjacency of element/isotope/count/group) with their AST; checked: text = rendering of the AST, AST strictly "
                       "well-formed, all 8 entry points return exactly the denoted atoms; non-trivial = >= 2 keys")
    decide(run, "C01", recs, res, errors, THEOREMS, "c01")
