"""C12 -- the periodic table is self-consistent and matches the repository's NIST data."""
import json
from tools.vlib import *

CLAUSES = {1: "stored under its own symbol", 2: "isotope keys = nucleon numbers / single placeholder entry",
           3: "neutron shift = number - most abundant", 4: "abundances in (0,1] summing to 1 (1e-3)",
           5: "most abundant isotope / monoisotopic mass", 6: "recorded min/max shift",
           7: "masses increasing and within 0.15 u of the nucleon number"}

THEOREMS = ["C12_table_consistent", "C12_matches_nist", "C12_same_construction", "C12_nonvacuous"]


def rt_literal(name, elems):
    rows = []
    for e in elems:
        isos = coq_list(["mkRtI %d %s %s %d %s" % (i["key"], coq_f(i["mass"]), coq_f(i["ab"]), i["neutrons"], coq_z(i["shift"]))
                         for i in e["isos"]])
        rows.append("mkRtE %s %s %d %s %d %s %s %s" % (coq_str(e["mapkey"]), coq_str(e["sym"]), e["mai"], coq_f(e["mam"]),
                                                       e["number"], coq_z(e["min"]), coq_z(e["max"]), isos))
    return "Definition %s : list rt_elem := [\n  %s\n]." % (name, ";\n  ".join(rows))


def run(run, args):
    rc, msg = gen_table()
    run.cov["translator"] = msg
    translator_refused = None
    if rc != 0:
        run.oblige("translator reads table.rs / nist_mass.json", False, msg)
        translator_refused = msg
        # the source now contains a statement the translator does not know.  Before reporting that alone, look for a concrete
        # failing element: the tables the CODE builds at run time are still compared with the last translation that was
        # accepted (coq/gen/Table.v is only rewritten by a successful translation) and with the NIST data
        if not (os.path.exists(os.path.join(COQ, "gen", "Table.v")) and os.path.exists(os.path.join(COQ, "gen", "Nist.v"))):
            violation(run, {"broken": "translator tools/gen_table.py cannot read the source", "detail": msg}, nofail=True)
    else:
        run.oblige("translator reads table.rs / nist_mass.json", True, msg)

    # the code that consumes the table (element.rs: index_isotopes, calc_min/max, PeriodicTable::add/get; helper.rs) = TableModel.v
    source_tie(run, ("element",))

    ok, log = build_harness()
    run.oblige("harness builds against /repo", ok, log[-400:] if not ok else "")
    if not ok:
        violation(run, {"broken": "correspondence harness does not build against /repo", "detail": log[-3000:]}, nofail=True)

    # the diagnosis run needs only the model files
    rc, out, _ = make(["model/TableRt.vo", "gen/Table.vo", "gen/Nist.vo", "model/KnownC12.vo"])
    if rc != 0:
        run.oblige("model files build", False, out[-400:])
        violation(run, {"broken": "model files do not build", "detail": out[-3000:]}, nofail=True)

    rc, out, err, dt = run_harness(["table"])
    if rc != 0:
        run.oblige("runtime dump of PERIODIC_TABLE", False, err[-300:])
        violation(run, {"broken": "harness `table` failed (panic while building the table?)", "detail": err[-2000:]}, nofail=False)
    dump = json.loads(out)
    src = ["From Coq Require Import ZArith NArith List String Bool Floats.",
           "From CE Require Import TableTypes TableModel NumFloat TableRt Table Nist KnownC12.",
           "Import ListNotations. Open Scope string_scope. Open Scope float_scope.",
           rt_literal("rt_global", dump["global"]), rt_literal("rt_fresh", dump["fresh"]),
           "Definition table := build_table table_src.",
           "Definition nist_table := build_table (map gen_elem nist_src).",
           "Eval vm_compute in rt_bad table rt_global.",
           "Eval vm_compute in rt_bad table rt_fresh.",
           "Eval vm_compute in failures_enc table known_c12.",
           "Eval vm_compute in diff_enc nist_table table.",
           "Eval vm_compute in [if nist_safe nist_src then 1%N else 0%N; if keys_unique table then 1%N else 0%N].",
           "Eval vm_compute in z64_bad table.",
           "Eval vm_compute in map (fun p => N.of_nat (List.length (isos (snd p)))) table.",
           "Eval vm_compute in failures_enc table (fun _ => false)."]
    p = write_case_file("C12_cases.v", "\n".join(src) + "\n")
    (_, rc, ev, raw, dt), = run_case_files([p])
    if rc != 0 or len(ev) != 8:
        run.oblige("correspondence run evaluates", False, raw[-400:])
        violation(run, {"broken": "C12 case file does not evaluate", "detail": raw[-3000:]}, nofail=True)
    bad_g, bad_f, fails, diff, flags, z64, sizes, fails_all = ev
    names = [e["mapkey"] for e in dump["global"]]
    import re as _re
    model_names = _re.findall(r'mkElem "((?:[^"]|"")*)"', open(os.path.join(COQ, "gen", "Table.v")).read())
    # model order = first-insertion order of build_table
    seen, order = set(), []
    for n in model_names:
        if n not in seen:
            seen.add(n)
            order.append(n)

    def name_rt(i, lst):
        return lst[i]["mapkey"] if i < 100000 else "model-only:" + order[i - 100000]

    n_el, n_iso = len(sizes), sum(sizes)
    run.cov.update({"elements": n_el, "isotopes": n_iso, "exhaustive": True,
                    "evaluations": n_el * 7 + n_iso, "distinct_nontrivial": sum(1 for s in sizes if s > 1),
                    "rule": "every element of the regenerated table against every clause (7 per element), every isotope value "
                            "against the runtime dump of PERIODIC_TABLE and of ChemicalElements::new(); non-trivial = element with "
                            "more than one isotope"})
    run.samples = [{"element": dump["global"][i]["mapkey"], "isotopes": [x["key"] for x in dump["global"][i]["isos"]]}
                   for i in range(0, len(dump["global"]), max(1, len(dump["global"]) // 6))]

    run.oblige("runtime PERIODIC_TABLE = model table (all fields, bitwise floats)", not bad_g, "")
    run.oblige("runtime ChemicalElements::new().periodic_table = model table", not bad_f, "")
    run.oblige("Z-level binary64 division = primitive float division on all table values", not z64, "")

    known = load_known("C12")
    for i in fails_all:
        k = "%s/clause%d" % (order[i // 100], i % 100)
        for (key, text) in known:
            if key == k:
                print("KNOWN-FINDING: property=C12 %s %s" % (k, text))
    broken = standard_proof_obligations(run, "C12", THEOREMS)
    broken += source_corollaries(run, "C12s", ["C12s_same_construction", "C12s_helper_table", "C12s_table_consistent", "C12s_matches_nist", "C12s_table_consistent_id",
                                               "C12s_matches_nist_id", "C12s_order_independent"], ("element",))

    # concrete failing inputs first
    if fails:
        i = fails[0]
        violation(run, {"failing_input": {"element": order[i // 100], "clause": i % 100, "clause_text": CLAUSES[i % 100]},
                        "all_failures": [{"element": order[j // 100], "clause": j % 100} for j in fails],
                        "how_to_replay": "coqc the case file coq/cases/C12_cases.v: failures_enc lists element*100+clause"})
    if diff or flags[0] != 1:
        violation(run, {"failing_input": {"elements_differing_from_generator_rules": [name_rt(i, [{"mapkey": n} for n in order]) if i < 100000 else "nist-only#%d" % (i - 100000) for i in diff],
                                          "nist_safe": flags[0]},
                        "what": "table.rs is not what data/build.rs's rules produce from data/nist_mass.json"})
    if flags[1] != 1:
        violation(run, {"failing_input": "duplicate element symbols in table.rs"})
    if bad_g or bad_f:
        which, lst = ("PERIODIC_TABLE", dump["global"]) if bad_g else ("ChemicalElements::new()", dump["fresh"])
        i = (bad_g or bad_f)[0]
        violation(run, {"failing_input": {"table": which, "element": name_rt(i, lst),
                                          "runtime_value": lst[i] if i < 100000 else None},
                        "what": "runtime table differs from the statements in table.rs as modelled (element.rs / helper.rs path)" +
                                ("; the translator refused the current table.rs (%s), so the model is the last accepted translation" % translator_refused[:200] if translator_refused else ""),
                        "all": [name_rt(j, lst) for j in (bad_g or bad_f)]})
    if translator_refused:
        violation(run, {"broken": "translator tools/gen_table.py cannot read the source", "detail": translator_refused,
                        "note": "the run-time tables still equal the last accepted translation and the NIST data on every element"}, nofail=True)
    if z64:
        violation(run, {"broken": "dbl_of_dec disagrees with primitive float division", "indices": z64}, nofail=True)
    if broken:
        violation(run, {"broken": broken[0][0], "detail": broken[0][1], "all_broken": [b[0] for b in broken]}, nofail=True)
    run.finish(0)
    print("C12 ok: %d elements, %d isotopes, %d obligations discharged" % (n_el, n_iso, len(run.obligations)))
