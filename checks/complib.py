"""Shared by C02 and C06: lock-step histories -> Coq `hist` terms."""
from tools.vlib import *

HEADER = """From Coq Require Import ZArith NArith List Bool Floats.
From CE Require Import Num NumFloat NumFloat64 Str Comp ESpec CompOps CompCheck.
Import ListNotations. Open Scope float_scope."""

FAMS = [("VecDirect", "FVecDirect"), ("MapDirect", "FMapDirect"), ("EnumVec", "FEnumVec"), ("EnumMap", "FEnumMap")]


def zl(xs):
    return "[" + "; ".join("(%d)%%Z" % x for x in xs) + "]"


def key_term(pool, i):
    return "(%s, %d%%N)" % (coq_codes_n(pool[i][0]), pool[i][1])


def coq_codes_n(s):
    return "[" + "; ".join("%d%%N" % ord(c) for c in s) + "]"


def op_term(pool, o):
    n = o[0]
    z = lambda v: "(%d)%%Z" % v
    if n in ("Set", "Inc", "IdxSet", "IdxAdd"):
        return "(O%s %s %s)" % (n, key_term(pool, o[1]), z(o[2]))
    if n in ("IdxStrSet", "IncStr", "GetStrMutSet"):
        return "(O%s %s %s)" % (n, coq_codes_n(o[1]), z(o[2]))
    if n in ("Add", "Sub"):
        return "(O%s%s %d%%nat)" % (n, ["Ref", "Val", "Assign", "AssignMut"][o[1]], o[2])
    if n == "Mul":
        return "(OMul%s %s)" % (["Ref", "Val", "Assign", "AssignMut"][o[1]], z(o[2]))
    if n == "Neg":
        return ["ONeg", "ONegRef"][o[1]]
    if n == "IterMut":
        return "(OIterMut %s %s)" % (z(o[1]), z(o[2]))
    if n == "Clone":
        return "(OClone %d%%nat)" % o[1]
    if n == "FromPairs":
        return "(OFromPairs [%s])" % "; ".join("(%s, %s)" % (key_term(pool, k), z(c)) for k, c in o[1])
    return "O" + n


def obs_term(o):
    return "mkObs %s %s %s %s %s %s" % ("true" if o["p"] else "false", zl(o["ints"]), coq_codes_n(o["disp"]),
                                       "true" if o["cached"] else "false", coq_f(o["mass"]), coq_f(o["calc"]))


def hist_term(pool, rec, famname, famcoq, hid):
    ops = "[" + "; ".join("(%d%%nat, %s)" % (r, op_term(pool, o)) for r, o in rec["ops"]) + "]"
    obs = "[" + ";\n    ".join(obs_term(o) for o in rec["fams"][famname]) + "]"
    return "(mkHist %d%%N %s %s\n   %s)" % (hid, famcoq, ops, obs)


def run_comp(run, mode, n, maxlen):
    ok, log = build_harness()
    run.oblige("harness builds against /repo", ok, log[-400:] if not ok else "")
    if not ok:
        violation(run, {"broken": "correspondence harness does not build against /repo", "detail": log[-3000:]}, nofail=True)
    rc, msg = gen_table()
    if rc != 0:
        violation(run, {"broken": "translator cannot read table.rs", "detail": msg}, nofail=True)
    source_tie(run, ("comp", "props"))
    rc, out, _ = make(["model/CompCheck.vo"])
    if rc != 0:
        violation(run, {"broken": "model files do not build", "detail": out[-3000:]}, nofail=True)
    rc, out, err, dt = run_harness(["comp", run.seed, n, mode, maxlen])
    if rc != 0:
        violation(run, {"broken": "harness `comp` failed", "detail": err[-2000:]}, nofail=True)
    lines = read_jsonl(out)
    head, recs = lines[0], lines[1:]
    cdir = os.path.join(VERIF, "corpus", run.prop)
    return head, recs


def eval_hists(run, head, recs, evals_per_quad, shard=6):
    """items are quadruples (one hist per family); each shard defines `quads : list (hist*hist*hist*hist)`."""
    pool = head["pool"]
    header = HEADER + "\nDefinition pool : list key := [%s].\nDefinition probes : list str := [%s].\n" % (
        "; ".join(key_term(pool, i) for i in range(len(pool))), "; ".join(coq_codes_n(s) for s in head["probes"]))
    items = []
    for rec in recs:
        hs = [hist_term(pool, rec, fn, fc, rec["id"] * 4 + j) for j, (fn, fc) in enumerate(FAMS)]
        items.append("(%s,\n  %s,\n  %s,\n  %s)" % tuple(hs))
    return eval_shards(run.prop + "_comp", header, items, "(hist * hist * hist * hist)", evals_per_quad, shard=shard)
