(* Prototype: generic transcription of baffling.rs (current code, incl. ladder bug) *)
Require Import List ZArith Bool Arith Lia.
Import ListNotations.

Record Num (F : Type) := mkNum {
  zero : F; one : F; add : F -> F -> F; sub : F -> F -> F; mul : F -> F -> F; div : F -> F -> F;
  of_Z : Z -> F; is_zero : F -> bool; ltb : F -> F -> bool }.
Arguments zero {F}. Arguments one {F}. Arguments add {F}. Arguments sub {F}. Arguments mul {F}.
Arguments div {F}. Arguments of_Z {F}. Arguments is_zero {F}. Arguments ltb {F}.

Section Brain.
Context {F : Type} (N : Num F).
Notation "0" := (zero N). Notation "1" := (one N).
Infix "+" := (add N). Infix "*" := (mul N). Infix "/" := (div N). Infix "-" := (sub N).
Definition neg1 : F := 0 - 1.
Definition sgn (even : bool) : F := if even then 1 else neg1.
Definition nthF (l : list F) (i : nat) : F := nth i l 0.

(* isotope: nucleon number, shift, mass, abundance *)
Record iso := { i_num : Z; i_shift : Z; i_mass : F; i_ab : F }.
Record elem := { e_sym : nat; e_number : Z; e_min : Z; e_max : Z; e_isos : list iso; e_mono_mass : F }.

Definition find_iso (e : elem) (k : Z) : option iso := find (fun i => Z.eqb (i_num i) k) (e_isos e).

(* isotopic_coefficients: z ranges min..max; i = z-min; k = n + number - i - 1 *)
Fixpoint coeffs_loop (e : elem) (with_mass : bool) (is_ : list nat) (acc : list F) : option (list F) :=
  match is_ with
  | [] => Some acc
  | i :: rest =>
    let k := (Z.of_nat (length (e_isos e)) + e_number e - Z.of_nat i - 1)%Z in
    match find_iso e k with
    | None => coeffs_loop e with_mass rest acc
    | Some iso =>
      let cur := Z.to_nat (e_max e - i_shift iso) in
      let coef := if with_mass then i_mass iso else 1 in
      let v := coef * i_ab iso in
      match Nat.compare cur (length acc) with
      | Gt => coeffs_loop e with_mass rest (acc ++ repeat 0 (cur - length acc) ++ [v])
      | Eq => coeffs_loop e with_mass rest (acc ++ [v])
      | Lt => None
      end
    end
  end.
Definition coeffs e wm := coeffs_loop e wm (seq 0 (Z.to_nat (e_max e - e_min e + 1))) [].

Definition vietes (c : list F) : list F :=
  let n := length c in let tail := nthF c (n - 1) in
  map (fun i => (sgn (Nat.even i) * nthF c (n - i - 1)) / tail) (seq 0 n).

(* update_power_sum: extend ps up to length esp *)
Definition ps_next (esp ps : list F) (k : nat) : F :=
  match k with O => 0 | _ =>
    let '(tmp, sign) := fold_left (fun '(t, s) j => let s' := s * neg1 in (t + (s' * nthF esp j) * nthF ps (k - j), s'))
                          (seq 1 (k - 1)) (0, neg1) in
    let sign := sign * neg1 in
    tmp + (sign * nthF esp k) * of_Z N (Z.of_nat k)
  end.
Fixpoint extend_ps (fuel : nat) (esp ps : list F) : list F :=
  match fuel with O => ps | S f =>
    if Nat.ltb (length ps) (length esp) then extend_ps f esp (ps ++ [ps_next esp ps (length ps)]) else ps end.
Definition update_ps esp ps := extend_ps (length esp) esp ps.

(* update_elementary_symmetric_polynomial(order): extend esp up to length ps *)
Definition esp_next (order : Z) (ps esp : list F) (k : nat) : F :=
  match k with O => 1 | _ =>
    if (order <? Z.of_nat k)%Z then 0 else
    (fold_left (fun acc j => acc + (sgn (Nat.odd j) * nthF ps j) * nthF esp (k - j)) (seq 1 k) 0) / of_Z N (Z.of_nat k)
  end.
Fixpoint extend_esp (fuel : nat) order (ps esp : list F) : list F :=
  match fuel with O => esp | S f =>
    if Nat.ltb (length esp) (length ps) then extend_esp f order ps (esp ++ [esp_next order ps esp (length esp)]) else esp end.
Definition update_esp order ps esp := extend_esp (length ps) order ps esp.

Record params := { p_esp : list F; p_ps : list F }.
Definition newton (order : Z) (p : params) : params :=
  match Nat.compare (length (p_ps p)) (length (p_esp p)) with
  | Lt => {| p_esp := p_esp p; p_ps := update_ps (p_esp p) (p_ps p) |}
  | Eq => p
  | Gt => {| p_esp := update_esp order (p_ps p) (p_esp p); p_ps := p_ps p |}
  end.

Definition params_from_element e wm : option params :=
  match coeffs e wm with None => None | Some acc =>
    Some (newton (Z.of_nat (length acc) - 1) {| p_esp := vietes acc; p_ps := [] |}) end.

Record phi := { ph_order : Z; ph_sym : nat; ph_el : params; ph_mass : params }.
Definition phi_from_element e : option phi :=
  match params_from_element e false, params_from_element e true with
  | Some a, Some b => Some {| ph_order := e_max e; ph_sym := e_sym e; ph_el := a; ph_mass := b |}
  | _, _ => None end.

Definition push_zeros (n : nat) (p : params) := {| p_esp := p_esp p ++ repeat 0 n; p_ps := p_ps p |}.
Definition phi_update (order : Z) (c : phi) : phi :=
  if (order <? ph_order c)%Z then c else
  let n := Z.to_nat (order + 1 - ph_order c) in
  let a := push_zeros n (ph_el c) in let b := push_zeros n (ph_mass c) in
  let o := Z.of_nat (length (p_esp a)) in
  {| ph_order := o; ph_sym := ph_sym c; ph_el := newton o a; ph_mass := newton o b |}.

(* composition: list of (element, count); constants: list phi aligned by symbol lookup *)
Definition get_phi (cs : list phi) (s : nat) : option phi := find (fun c => Nat.eqb (ph_sym c) s) cs.
Definition psum (cs : list phi) s k : F := match get_phi cs s with Some c => nthF (p_ps (ph_el c)) k | None => 0 end.
Definition psum_mass (cs : list phi) s k : F := match get_phi cs s with Some c => nthF (p_ps (ph_mass c)) k | None => 0 end.

Definition comp := list (elem * Z).
Definition max_variants (c : comp) : Z := fold_left (fun a '(e, n) => (a + e_max e * n)%Z) c 0%Z.

Definition phi_for cs (c : comp) k : F := fold_left (fun a '(e, n) => a + psum cs (e_sym e) k * of_Z N n) c 0.
Definition phi_mass_for cs (c : comp) (el : elem) k : F :=
  fold_left (fun a '(e, n) => let coef := if Nat.eqb (e_sym e) (e_sym el) then (n - 1)%Z else n in
                              a + psum cs (e_sym e) k * of_Z N coef) c 0 + psum_mass cs (e_sym el) k.

Definition prob_vector cs (c : comp) (order : nat) (mv : Z) (base : F) : list F :=
  let pv := 0 :: map (phi_for cs c) (seq 1 order) in
  let e := update_esp mv pv [] in
  map (fun '(i, x) => x * (base * sgn (Nat.even i))) (combine (seq 0 (length e)) e).

Definition center_vector cs (c : comp) (order : nat) (mv : Z) (base : F) (pv : list F) : list F :=
  let polys := map (fun '(el, _) => update_esp mv (0 :: map (phi_mass_for cs c el) (seq 1 order)) []) c in
  map (fun i =>
    let center := fold_left (fun a '((e, n), poly) =>
         a + ((of_Z N n * (sgn (Nat.even i) * nthF poly i)) * base) * e_mono_mass e) (combine c polys) 0 in
    if is_zero N (nthF pv i) then 0 else center / nthF pv i) (seq 0 (order + 1)).

Definition constants_fresh (c : comp) : option (list phi) :=
  fold_left (fun acc '(e, _) => match acc with None => None | Some cs =>
     match get_phi cs (e_sym e) with Some _ => Some cs | None =>
       match phi_from_element e with Some p => Some (cs ++ [p]) | None => None end end end) c (Some []).

Definition brain (c : comp) (order_req : Z) (base : F) : option (list (F * F)) :=
  let mv := max_variants c in
  let order := Z.min order_req mv in
  match constants_fresh c with None => None | Some cs0 =>
    let cs := map (phi_update order) cs0 in
    let o := Z.to_nat order in
    let pv := prob_vector cs c o mv base in
    let cv := center_vector cs c o mv base pv in
    let total := fold_left (add N) pv 0 in
    Some (map (fun '(m, p) => (m, p / total)) (firstn (o + 1) (combine cv pv)))
  end.
End Brain.
