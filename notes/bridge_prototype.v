From mathcomp Require Import all_ssreflect all_algebra.
From mathcomp Require Import ring.
Set Implicit Arguments. Unset Strict Implicit. Unset Printing Implicit Defensive.
Import GRing.Theory Num.Theory.
Local Open Scope ring_scope.

(* the model's loop, written with stdlib fold_left/seq exactly as in the generic model *)
Section Model.
Variable F : Type.
Variables (zero one : F) (add mul sub : F -> F -> F) (ofn : nat -> F).
Definition neg1 := sub zero one.
Definition nthF (l : list F) (i : nat) : F := List.nth i l zero.
Definition ps_next (esp ps : list F) (k : nat) : F :=
  match k with
  | O => zero
  | _ =>
    let '(tmp, sign) :=
      List.fold_left (fun ts j => let s' := mul (snd ts) neg1 in
                                  (add (fst ts) (mul (mul s' (nthF esp j)) (nthF ps (k - j))), s'))
                     (List.seq 1 (k - 1)) (zero, neg1) in
    add tmp (mul (mul (mul sign neg1) (nthF esp k)) (ofn k))
  end.
End Model.

Section Bridge.
Variable R : numFieldType.
Notation psn := (@ps_next R 0 1 +%R *%R (fun x y => x - y) (fun n => n%:R)).

Lemma nthF_nth (l : seq R) i : nthF 0 l i = l`_i.
Proof. by elim: l i => [|x l IH] [|i] //=. Qed.

Lemma seq_iota a n : List.seq a n = iota a n.
Proof. by elim: n a => [|n IH] a //=; rewrite IH. Qed.

Lemma fold_left_foldl (A B : Type) (f : A -> B -> A) l z : List.fold_left f l z = foldl f z l.
Proof. by elim: l z => [|x l IH] z //=. Qed.

Lemma ps_next_sum (esp ps : seq R) k : (0 < k)%N ->
  psn esp ps k = \sum_(1 <= j < k) (-1) ^+ j.+1 * esp`_j * ps`_(k - j) + (-1) ^+ k.+1 * esp`_k * k%:R.
Proof.
case: k => // k _; rewrite /ps_next subn1 /= seq_iota fold_left_foldl.
have N1 : neg1 0 1 (fun x y => x - y) = (-1 : R) by rewrite /neg1 sub0r.
rewrite !N1.
have H : forall m a (t : R),
   foldl (fun ts j => (ts.1 + ts.2 * -1 * nthF 0 esp j * nthF 0 ps (k.+1 - j), ts.2 * -1))
         (t, (-1) ^+ a) (iota a m)
   = (t + \sum_(a <= j < a + m) (-1) ^+ j.+1 * esp`_j * ps`_(k.+1 - j), (-1) ^+ (a + m)).
  elim=> [|m IH] a t.
    by rewrite addn0 /= big_geq // addr0.
  rewrite /= !nthF_nth -exprSr IH addnS addSn.
  rewrite [in RHS]big_ltn; last by rewrite ltnS leq_addr.
  by rewrite addrA.
move: (H k 1%N 0); rewrite expr1 add0r => -> /=.
by rewrite nthF_nth add1n -exprSr.
Qed.
End Bridge.
