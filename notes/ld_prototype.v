From mathcomp Require Import all_ssreflect all_algebra.
From mathcomp Require Import ring.
Set Implicit Arguments. Unset Strict Implicit. Unset Printing Implicit Defensive.
Import GRing.Theory Num.Theory.
Local Open Scope ring_scope.

Section LD.
Variable F : numFieldType.
Implicit Types (A B a b : {poly F}) (N : nat).

Definition z_upto N (p : {poly F}) := forall k, (k <= N)%N -> p`_k = 0.

Lemma z_upto_mulr N p q : z_upto N p -> z_upto N (p * q).
Proof.
move=> Hp k Hk; rewrite coefM big1 // => j _.
by rewrite Hp ?mul0r // (leq_trans _ Hk) // -ltnS.
Qed.
Lemma z_upto_mull N p q : z_upto N p -> z_upto N (q * p).
Proof. by move=> Hp; rewrite mulrC; apply: z_upto_mulr. Qed.
Lemma z_upto_add N p q : z_upto N p -> z_upto N q -> z_upto N (p + q).
Proof. by move=> Hp Hq k Hk; rewrite coefD Hp // Hq // addr0. Qed.

Definition ld N A a := z_upto N ('X * A^`() + A * a).

Lemma ld_mul N A B a b : ld N A a -> ld N B b -> ld N (A * B) (a + b).
Proof.
move=> HA HB; rewrite /ld.
have -> : 'X * (A * B)^`() + A * B * (a + b) =
          ('X * A^`() + A * a) * B + A * ('X * B^`() + B * b).
  by rewrite derivM !mulrDr !mulrDl !mulrA; ring.
by apply: z_upto_add; [apply: z_upto_mulr | apply: z_upto_mull].
Qed.

Lemma ld_one N : ld N 1 0.
Proof. by move=> k _; rewrite derivC mulr0 mulr0 addr0 coef0. Qed.

Lemma ld_exp N A a n : ld N A a -> ld N (A ^+ n) (a *+ n).
Proof.
move=> HA; elim: n => [|n IH]; first by rewrite expr0 mulr0n; apply: ld_one.
by rewrite exprS mulrS; apply: ld_mul.
Qed.

Lemma ld_prod N (I : Type) (r : seq I) (A a : I -> {poly F}) (n : I -> nat) :
  (forall i, ld N (A i) (a i)) ->
  ld N (\prod_(i <- r) A i ^+ n i) (\sum_(i <- r) a i *+ n i).
Proof.
move=> H; elim: r => [|i r IH]; first by rewrite !big_nil; apply: ld_one.
by rewrite !big_cons; apply: ld_mul => //; apply: ld_exp.
Qed.

(* coefficient form of ld *)
Lemma ld_coefE N A a k : (0 < k)%N ->
  ('X * A^`() + A * a)`_k = A`_k *+ k + \sum_(j < k.+1) A`_j * a`_(k - j).
Proof.
move=> k0; rewrite coefD coefXM (gtn_eqF k0) coef_deriv prednK // coefM.
by [].
Qed.

(* uniqueness *)
Lemma ld_uniq N A B a : ld N A a -> ld N B a -> a`_0 = 0 -> A`_0 = B`_0 ->
  forall k, (k <= N)%N -> A`_k = B`_k.
Proof.
move=> HA HB a0 AB0 k; elim/ltn_ind: k => -[//|k] IH kN.
have HAk := HA _ kN; have HBk := HB _ kN.
rewrite !ld_coefE // in HAk HBk.
have E : \sum_(j < k.+2) A`_j * a`_(k.+1 - j) = \sum_(j < k.+2) B`_j * a`_(k.+1 - j).
  rewrite [LHS]big_ord_recr [RHS]big_ord_recr /= subnn a0 !mulr0 !addr0.
  apply: eq_bigr => j _; rewrite IH //.
  by rewrite (leq_trans _ (ltnW kN)) // -ltnS.
have H : A`_k.+1 *+ k.+1 = B`_k.+1 *+ k.+1.
  by apply: (@addIr _ (\sum_(j < k.+2) B`_j * a`_(k.+1 - j))); rewrite -{1}E HAk HBk.
by move/eqP: H; rewrite -subr_eq0 -mulrnBl mulrn_eq0 /= subr_eq0 => /eqP.
Qed.
End LD.
