(* Prototype model of formula.rs WITH the trial fixes F1-F3 applied (see notes/trial-fixes.patch). *)
Require Import List ZArith NArith Bool Arith Lia.
Import ListNotations.

Definition char := N.
Definition str := list char.
Definition width (c : char) : nat :=
  if (c <? 128)%N then 1 else if (c <? 2048)%N then 2 else if (c <? 65536)%N then 3 else 4.
Fixpoint blen (s : str) : nat := match s with [] => 0 | c :: t => width c + blen t end.

Fixpoint drop_bytes (s : str) (a : nat) {struct s} : option str :=
  match a with
  | 0 => Some s
  | _ => match s with
         | [] => None
         | c :: t => if width c <=? a then drop_bytes t (a - width c) else None
         end
  end.
Fixpoint take_bytes (s : str) (a : nat) {struct s} : option str :=
  match a with
  | 0 => Some []
  | _ => match s with
         | [] => None
         | c :: t => if width c <=? a then option_map (cons c) (take_bytes t (a - width c)) else None
         end
  end.
Definition slice (s : str) (a b : nat) : option str :=
  if a <=? b then match drop_bytes s a with Some r => take_bytes r (b - a) | None => None end else None.

Fixpoint indices (s : str) (i : nat) : list (nat * char) :=
  match s with [] => [] | c :: t => (i, c) :: indices t (i + width c) end.

Section Parser.
(* std oracles for non-ASCII code points *)
Variable uni_numeric : char -> bool.
Definition is_upper (c : char) := ((65 <=? c) && (c <=? 90))%N.
Definition is_lower (c : char) := ((97 <=? c) && (c <=? 122))%N.
Definition is_alpha (c : char) := is_upper c || is_lower c.
Definition is_digit (c : char) := ((48 <=? c) && (c <=? 57))%N.
Definition is_numeric (c : char) := if (c <? 128)%N then is_digit c else uni_numeric c.
Definition LP : char := 40%N. Definition RP : char := 41%N. Definition LB : char := 91%N. Definition RB : char := 93%N.

(* table *)
Variable has_elem : str -> bool.
Variable has_iso : str -> N -> bool.

Definition key := (str * N)%type.
Definition key_eqb (a b : key) := (if list_eq_dec N.eq_dec (fst a) (fst b) then true else false) && (snd a =? snd b)%N.
Definition comp := list (key * Z).
Fixpoint inc (c : comp) (k : key) (n : Z) : comp :=
  match c with
  | [] => [(k, n)]
  | (k', m) :: t => if key_eqb k k' then (k', (m + n)%Z) :: t else (k', m) :: inc t k n
  end.
Definition add_comp (a b : comp) : comp := fold_left (fun a kn => inc a (fst kn) (snd kn)) b a.
Definition mul_comp (a : comp) (n : Z) : comp := map (fun kn => (fst kn, (snd kn * n)%Z)) a.

Fixpoint digits_val (s : str) (acc : N) : option N :=
  match s with
  | [] => Some acc
  | c :: t => if is_digit c then digits_val t (acc * 10 + (c - 48))%N else None
  end.
Definition parse_uint (bound : N) (s : str) : option N :=
  match s with [] => None | _ => match digits_val s 0 with Some v => if (v <=? bound)%N then Some v else None | None => None end end.
Definition parse_i32 := parse_uint 2147483647.
Definition parse_u16 := parse_uint 65535.

Inductive st := New | Element | Isotope | IsotopeToCount | Count | Group | GroupToGroupCount | GroupCount.
Inductive err := InvalidStart | ElementCountMalformed | IsotopeCountMalformed | GroupCountMalformed | IncompleteFormula | InvalidElement.
Inductive res (A : Type) := Ok (a : A) | Err (e : err) | Panic.
Arguments Ok {A}. Arguments Err {A}. Arguments Panic {A}.
Definition bind {A B} (r : res A) (f : A -> res B) : res B := match r with Ok a => f a | Err e => Err e | Panic => Panic end.
Notation "x <- r ;; k" := (bind r (fun x => k)) (at level 61, r at next level, right associativity).

Record cfg := { es : nat; ee : nat; is_ : nat; ie : nat; cs : nat; ce : nat; pstack : Z;
                gs : nat; ge : nat; gcs : nat; gce : nat; state : st }.
Definition cfg0 := {| es := 0; ee := 0; is_ := 0; ie := 0; cs := 0; ce := 0; pstack := 0; gs := 0; ge := 0; gcs := 0; gce := 0; state := New |}.

Definition sl (s : str) a b : res str := match slice s a b with Some x => Ok x | None => Panic end.
Definition of_opt {A} (e : err) (o : option A) : res A := match o with Some a => Ok a | None => Err e end.

(* parse_element_from_string (fixed: fallible lookup) ; resets es/ee *)
Definition get_elem (s : str) (c : cfg) : res (str * cfg) :=
  sym <- sl s (es c) (ee c) ;;
  if has_elem sym then Ok (sym, {| es := 0; ee := 0; is_ := is_ c; ie := ie c; cs := cs c; ce := ce c; pstack := pstack c;
                                   gs := gs c; ge := ge c; gcs := gcs c; gce := gce c; state := state c |})
  else Err InvalidElement.
Definition check_iso (sym : str) (iso : N) : res N :=
  if (iso =? 0)%N || has_iso sym iso then Ok iso else Err IsotopeCountMalformed.

Definition set_es c v := {| es := v; ee := ee c; is_ := is_ c; ie := ie c; cs := cs c; ce := ce c; pstack := pstack c; gs := gs c; ge := ge c; gcs := gcs c; gce := gce c; state := state c |}.
Definition set_ee c v := {| es := es c; ee := v; is_ := is_ c; ie := ie c; cs := cs c; ce := ce c; pstack := pstack c; gs := gs c; ge := ge c; gcs := gcs c; gce := gce c; state := state c |}.
Definition set_is c v := {| es := es c; ee := ee c; is_ := v; ie := ie c; cs := cs c; ce := ce c; pstack := pstack c; gs := gs c; ge := ge c; gcs := gcs c; gce := gce c; state := state c |}.
Definition set_ie c v := {| es := es c; ee := ee c; is_ := is_ c; ie := v; cs := cs c; ce := ce c; pstack := pstack c; gs := gs c; ge := ge c; gcs := gcs c; gce := gce c; state := state c |}.
Definition set_cs c v := {| es := es c; ee := ee c; is_ := is_ c; ie := ie c; cs := v; ce := ce c; pstack := pstack c; gs := gs c; ge := ge c; gcs := gcs c; gce := gce c; state := state c |}.
Definition set_ce c v := {| es := es c; ee := ee c; is_ := is_ c; ie := ie c; cs := cs c; ce := v; pstack := pstack c; gs := gs c; ge := ge c; gcs := gcs c; gce := gce c; state := state c |}.
Definition set_ps c v := {| es := es c; ee := ee c; is_ := is_ c; ie := ie c; cs := cs c; ce := ce c; pstack := v; gs := gs c; ge := ge c; gcs := gcs c; gce := gce c; state := state c |}.
Definition set_gs c v := {| es := es c; ee := ee c; is_ := is_ c; ie := ie c; cs := cs c; ce := ce c; pstack := pstack c; gs := v; ge := ge c; gcs := gcs c; gce := gce c; state := state c |}.
Definition set_ge c v := {| es := es c; ee := ee c; is_ := is_ c; ie := ie c; cs := cs c; ce := ce c; pstack := pstack c; gs := gs c; ge := v; gcs := gcs c; gce := gce c; state := state c |}.
Definition set_gcs c v := {| es := es c; ee := ee c; is_ := is_ c; ie := ie c; cs := cs c; ce := ce c; pstack := pstack c; gs := gs c; ge := ge c; gcs := v; gce := gce c; state := state c |}.
Definition set_gce c v := {| es := es c; ee := ee c; is_ := is_ c; ie := ie c; cs := cs c; ce := ce c; pstack := pstack c; gs := gs c; ge := ge c; gcs := gcs c; gce := v; state := state c |}.
Definition set_st c v := {| es := es c; ee := ee c; is_ := is_ c; ie := ie c; cs := cs c; ce := ce c; pstack := pstack c; gs := gs c; ge := ge c; gcs := gcs c; gce := gce c; state := v |}.

(* start of a new item on delimiter character ch at offset i; e is the error for a non-delimiter *)
Definition start_item (paren_assign : bool) (e : err) (c : cfg) (i : nat) (ch : char) : res cfg :=
  if (ch =? LP)%N then Ok (set_st (set_gs (set_ps c (if paren_assign then 1 else pstack c + 1)%Z) (i + 1)) Group)
  else if is_upper ch then Ok (set_st (set_es c i) Element)
  else Err e.

Definition parse_isotope_slice (s : str) (c : cfg) : res N :=
  t <- sl s (is_ c) (ie c) ;; of_opt IsotopeCountMalformed (parse_u16 t).

Section Step.
Variable parse_rec : str -> res comp.   (* recursive call on a group body *)

Definition take_count (s : str) (c : cfg) : res (option N * cfg) :=
  t <- sl s (cs c) (ce c) ;; Ok (parse_i32 t, set_ce (set_cs c 0) 0).
Definition take_gcount (s : str) (c : cfg) : res (option N * cfg) :=
  t <- sl s (gcs c) (gce c) ;; Ok (parse_i32 t, set_gce (set_gcs c 0) 0).
Definition take_group (s : str) (c : cfg) : res (comp * cfg) :=
  t <- sl s (gs c) (ge c) ;; g <- parse_rec t ;; Ok (g, c).

Definition step (s : str) (acc : comp) (c : cfg) (i : nat) (ch : char) : res (comp * cfg) :=
  match state c with
  | New =>
      if is_upper ch then Ok (acc, set_st (set_es c i) Element)
      else if (ch =? LP)%N then Ok (acc, set_st (set_gs (set_ps c (pstack c + 1)%Z) (i + 1)) Group)
      else Err InvalidStart
  | Group =>
      if (ch =? RP)%N then
        let c := set_ps c (pstack c - 1)%Z in
        if (pstack c =? 0)%Z then Ok (acc, set_st (set_ge c i) GroupToGroupCount) else Ok (acc, c)
      else if (ch =? LP)%N then Ok (acc, set_ps c (pstack c + 1)%Z)
      else Ok (acc, c)
  | Element =>
      if is_alpha ch then
        if is_upper ch then
          r <- get_elem s (set_ee c i) ;;
          let '(sym, c) := r in
          Ok (inc acc (sym, 0%N) 1, set_ee (set_es (set_st c Element) i) 0)
        else Ok (acc, c)
      else if is_numeric ch then Ok (acc, set_st (set_cs (set_ee c i) i) Count)
      else if (ch =? LB)%N then Ok (acc, set_st (set_is (set_ee c i) (i + 1)) Isotope)
      else if (ch =? LP)%N then
        r <- get_elem s (set_ee c i) ;;
        let '(sym, c) := r in
        Ok (inc acc (sym, 0%N) 1, set_st (set_gs (set_ps c (pstack c + 1)%Z) (i + 1)) Group)
      else Ok (acc, c)
  | Isotope =>
      if (ch =? RB)%N then Ok (acc, set_st (set_ie c i) IsotopeToCount)
      else if negb (is_numeric ch) then Err IsotopeCountMalformed
      else Ok (acc, c)
  | Count =>
      if negb (is_numeric ch) then
        r <- take_count s (set_ce c i) ;;
        let '(cnt, c) := r in
        cnt <- of_opt ElementCountMalformed cnt ;;
        iso <- (if Nat.eqb (ie c) (is_ c) then Ok 0%N else parse_isotope_slice s c) ;;
        r <- get_elem s c ;;
        let '(sym, c) := r in
        iso <- check_iso sym iso ;;
        let acc := inc acc (sym, iso) (Z.of_N cnt) in
        let c := set_ie (set_is c 0) 0 in
        c <- start_item true InvalidElement c i ch ;; Ok (acc, c)
      else Ok (acc, c)
  | IsotopeToCount =>
      if is_numeric ch then Ok (acc, set_st (set_cs c i) Count)
      else
        r <- get_elem s c ;;
        let '(sym, c) := r in
        iso <- parse_isotope_slice s c ;;
        iso <- check_iso sym iso ;;
        let acc := inc acc (sym, iso) 1 in
        let c := set_ie (set_is c 0) 0 in
        c <- start_item false IsotopeCountMalformed c i ch ;; Ok (acc, c)
  | GroupToGroupCount =>
      if negb (is_numeric ch) then
        r <- take_group s c ;;
        let '(g, c) := r in
        let c := set_ge (set_gs c 0) 0 in
        let acc := add_comp acc g in
        c <- start_item true InvalidElement c i ch ;; Ok (acc, c)
      else Ok (acc, set_st (set_gcs c i) GroupCount)
  | GroupCount =>
      if negb (is_numeric ch) then
        let c := set_gce c i in
        r <- take_group s c ;;
        let '(g, c) := r in
        let c := set_ge (set_gs c 0) 0 in
        r <- take_gcount s c ;;
        let '(cnt, c) := r in
        cnt <- of_opt ElementCountMalformed cnt ;;
        let acc := add_comp acc (mul_comp g (Z.of_N cnt)) in
        c <- start_item true InvalidElement c i ch ;; Ok (acc, c)
      else Ok (acc, c)
  end.

Definition finish (s : str) (acc : comp) (c : cfg) : res comp :=
  let n := blen s in
  match state c with
  | Element =>
      r <- get_elem s (set_ee c n) ;; let '(sym, _) := r in Ok (inc acc (sym, 0%N) 1)
  | Count =>
      r <- take_count s (set_ce c n) ;;
      let '(cnt, c) := r in
      cnt <- of_opt ElementCountMalformed cnt ;;
      iso <- (if Nat.eqb (ie c) (is_ c) then Ok 0%N else parse_isotope_slice s c) ;;
      r <- get_elem s c ;;
      let '(sym, c) := r in
      iso <- check_iso sym iso ;;
      Ok (inc acc (sym, iso) (Z.of_N cnt))
  | IsotopeToCount =>
      r <- get_elem s c ;;
      let '(sym, c) := r in
      iso <- parse_isotope_slice s c ;;
      iso <- check_iso sym iso ;;
      Ok (inc acc (sym, iso) 1)
  | GroupToGroupCount =>
      r <- take_group s c ;; let '(g, _) := r in Ok (add_comp acc g)
  | GroupCount =>
      let c := set_gce c n in
      r <- take_group s c ;;
      let '(g, c) := r in
      r <- take_gcount s c ;;
      let '(cnt, c) := r in
      cnt <- of_opt GroupCountMalformed cnt ;;
      Ok (add_comp acc (mul_comp g (Z.of_N cnt)))
  | _ => Err IncompleteFormula
  end.

Fixpoint run (s : str) (acc : comp) (c : cfg) (l : list (nat * char)) : res comp :=
  match l with
  | [] => finish s acc c
  | (i, ch) :: t => r <- step s acc c i ch ;; let '(acc, c) := r in run s acc c t
  end.
End Step.

Fixpoint parse (fuel : nat) (s : str) : res comp :=
  match fuel with
  | O => Panic
  | S f => run (parse f) s [] cfg0 (indices s 0)
  end.
Definition parse_formula (s : str) := parse (S (length s)) s.
End Parser.
