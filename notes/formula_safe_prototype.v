Require Import List ZArith NArith Bool Arith Lia.
Import ListNotations.
Require Import Formula.
Arguments Ok {A}. Arguments Err {A}. Arguments Panic {A}.

(* boundary: byte offset k is the end of some prefix of s *)
Definition bnd (s : str) (k : nat) : Prop := exists p q, s = p ++ q /\ blen p = k.

Lemma width_pos c : 1 <= width c.
Proof. unfold width; repeat destruct (_ <? _)%N; lia. Qed.

Lemma blen_app p q : blen (p ++ q) = blen p + blen q.
Proof. induction p; simpl; lia. Qed.

Lemma drop_bytes_app p q : drop_bytes (p ++ q) (blen p) = Some q.
Proof.
  induction p as [|c p IH]; simpl.
  - destruct q; reflexivity.
  - pose proof (width_pos c). destruct (width c + blen p) eqn:E; [lia|].
    rewrite <- E. replace (width c <=? width c + blen p) with true by (symmetry; apply Nat.leb_le; lia).
    replace (width c + blen p - width c) with (blen p) by lia. exact IH.
Qed.

Lemma take_bytes_app p q : take_bytes (p ++ q) (blen p) = Some p.
Proof.
  induction p as [|c p IH]; simpl.
  - destruct q; reflexivity.
  - pose proof (width_pos c). destruct (width c + blen p) eqn:E; [lia|].
    rewrite <- E. replace (width c <=? width c + blen p) with true by (symmetry; apply Nat.leb_le; lia).
    replace (width c + blen p - width c) with (blen p) by lia. rewrite IH. reflexivity.
Qed.

(* two boundaries a <= b split s as p ++ m ++ q *)
Lemma bnd_split s a b : bnd s a -> bnd s b -> a <= b ->
  exists p m q, s = p ++ m ++ q /\ blen p = a /\ blen m = b - a.
Proof.
  intros (p1 & q1 & E1 & L1) (p2 & q2 & E2 & L2) Hab. subst a b.
  revert p2 q2 s q1 E1 E2 Hab. induction p1 as [|c p1 IH]; intros p2 q2 s q1 E1 E2 Hab.
  - exists [], p2, q2. simpl in *. subst. repeat split; auto; lia.
  - destruct p2 as [|c2 p2].
    + simpl in Hab. pose proof (width_pos c). lia.
    + simpl in E1, E2. subst s. injection E2 as Ec Et. subst c2.
      simpl in Hab. destruct (IH p2 q2 (p1 ++ q1) q1 eq_refl Et) as (p & m & q & Es & Lp & Lm); [lia|].
      exists (c :: p), m, q. simpl. rewrite Es. repeat split; simpl; lia.
Qed.

Lemma slice_some s a b : bnd s a -> bnd s b -> a <= b -> exists t, slice s a b = Some t /\ length t <= length s.
Proof.
  intros Ha Hb Hab. destruct (bnd_split s a b Ha Hb Hab) as (p & m & q & Es & Lp & Lm).
  unfold slice. replace (a <=? b) with true by (symmetry; apply Nat.leb_le; lia).
  subst s a. rewrite drop_bytes_app. rewrite <- Lm. rewrite take_bytes_app.
  exists m. split; auto. rewrite !app_length. lia.
Qed.

Lemma blen_0 p : blen p = 0 -> p = [].
Proof. destruct p as [|c p]; auto. simpl. pose proof (width_pos c). lia. Qed.

Lemma slice_some_lt s a b : bnd s a -> bnd s b -> 1 <= a -> a <= b -> exists t, slice s a b = Some t /\ length t < length s.
Proof.
  intros Ha Hb H1 Hab. destruct (bnd_split s a b Ha Hb Hab) as (p & m & q & Es & Lp & Lm).
  unfold slice. replace (a <=? b) with true by (symmetry; apply Nat.leb_le; lia).
  subst s a. rewrite drop_bytes_app. rewrite <- Lm. rewrite take_bytes_app.
  exists m. split; auto. rewrite !app_length.
  destruct p as [|c p]; [simpl in H1; lia|]. simpl. lia.
Qed.

Section Safety.
Variables (uni_numeric : char -> bool) (has_elem : str -> bool) (has_iso : str -> N -> bool).
Variable s : str.
Notation B := (bnd s).

Definition iso_clean (c : cfg) := ie c = is_ c.

Definition Inv (c : cfg) (i : nat) : Prop :=
  match state c with
  | New => iso_clean c
  | Element => iso_clean c /\ B (es c) /\ es c <= i
  | Isotope => B (es c) /\ B (ee c) /\ es c <= ee c /\ B (is_ c) /\ is_ c <= i
  | IsotopeToCount => B (es c) /\ B (ee c) /\ es c <= ee c /\ B (is_ c) /\ B (ie c) /\ is_ c <= ie c /\ ie c <= i
  | Count => B (es c) /\ B (ee c) /\ es c <= ee c /\ B (cs c) /\ cs c <= i /\
             (ie c = is_ c \/ (B (is_ c) /\ B (ie c) /\ is_ c <= ie c))
  | Group => iso_clean c /\ B (gs c) /\ gs c <= i /\ 1 <= gs c
  | GroupToGroupCount => iso_clean c /\ B (gs c) /\ B (ge c) /\ gs c <= ge c /\ 1 <= gs c
  | GroupCount => iso_clean c /\ B (gs c) /\ B (ge c) /\ gs c <= ge c /\ 1 <= gs c /\ B (gcs c) /\ gcs c <= i
  end.

Variable parse_rec : str -> res comp.
Hypothesis rec_safe : forall t, length t < length s -> parse_rec t <> Panic.

Lemma sl_ok_lt a b : B a -> B b -> 1 <= a -> a <= b -> exists t, sl s a b = Ok t /\ length t < length s.
Proof.
  intros Ha Hb H1 Hab. destruct (slice_some_lt s a b Ha Hb H1 Hab) as (t & E & L).
  exists t. unfold sl. rewrite E. auto.
Qed.

Ltac use_sl_lt :=
  match goal with
  | |- context [sl s ?a ?b] =>
      let t := fresh "t" in let E := fresh "E" in let L := fresh "L" in
      destruct (sl_ok_lt a b) as (t & E & L); [ (simpl; intuition (auto; try lia)) .. | rewrite E; simpl ]
  end.

Lemma sl_ok a b : B a -> B b -> a <= b -> exists t, sl s a b = Ok t /\ length t <= length s.
Proof.
  intros Ha Hb Hab. destruct (slice_some s a b Ha Hb Hab) as (t & E & L).
  exists t. unfold sl. rewrite E. auto.
Qed.

Ltac use_sl :=
  match goal with
  | |- context [sl s ?a ?b] =>
      let t := fresh "t" in let E := fresh "E" in let L := fresh "L" in
      destruct (sl_ok a b) as (t & E & L); [ (simpl; intuition (auto; try lia)) .. | rewrite E; simpl ]
  end.

Definition good (r : res (comp * cfg)) (i' : nat) : Prop :=
  match r with Panic => False | Err _ => True | Ok (_, c') => Inv c' i' end.

Ltac fin := unfold good, Inv, iso_clean in *; simpl in *; try match goal with H : state _ = _ |- _ => rewrite ?H in * end; simpl in *; intuition (auto; try lia).
Ltac ascii_w P := apply N.eqb_eq in P; subst; change (width LP) with 1 in *; change (width LB) with 1 in *; change (width RB) with 1 in *; change (width RP) with 1 in *.

Lemma step_safe acc c i ch :
  Inv c i -> B i -> B (i + width ch) ->
  good (step uni_numeric has_elem has_iso parse_rec s acc c i ch) (i + width ch).
Proof.
  intros HI Bi Bi'. pose proof (width_pos ch) as Hw.
  unfold step. destruct (state c) eqn:St; unfold Inv in HI; rewrite St in HI.
  - (* New *)
    destruct (is_upper ch) eqn:U; [fin|].
    destruct (ch =? LP)%N eqn:P; [|exact I]. ascii_w P. fin.
  - (* Element *)
    destruct (is_alpha ch) eqn:A.
    + destruct (is_upper ch) eqn:U; [|fin].
      unfold get_elem; simpl. use_sl. destruct (has_elem t); simpl; fin.
    + destruct (is_numeric uni_numeric ch) eqn:Nm; [fin|].
      destruct (ch =? LB)%N eqn:P1; [ascii_w P1; fin|].
      destruct (ch =? LP)%N eqn:P2; [|fin].
      ascii_w P2. unfold get_elem; simpl. use_sl. destruct (has_elem t); simpl; fin.
  - (* Isotope *)
    destruct (ch =? RB)%N eqn:P; [ascii_w P; fin|].
    destruct (negb (is_numeric uni_numeric ch)); fin.
  - (* IsotopeToCount *)
    destruct (is_numeric uni_numeric ch) eqn:Nm; [fin|].
    unfold get_elem; simpl. use_sl. destruct (has_elem t); simpl; [|fin].
    unfold parse_isotope_slice; simpl. use_sl.
    destruct (parse_u16 t0); simpl; [|fin].
    unfold check_iso. destruct (_ || _); simpl; [|fin].
    unfold start_item; simpl.
    destruct (ch =? LP)%N eqn:P; [ascii_w P; fin|].
    destruct (is_upper ch); fin.
  - (* Count *)
    destruct (negb (is_numeric uni_numeric ch)) eqn:Nm; [|fin].
    unfold take_count; simpl. use_sl.
    destruct (parse_i32 t); simpl; [|fin].
    destruct (Nat.eqb (ie c) (is_ c)) eqn:EQ; simpl.
    + unfold get_elem; simpl. use_sl. destruct (has_elem t0); simpl; [|fin].
      unfold start_item; simpl.
      destruct (ch =? LP)%N eqn:P; [ascii_w P; fin|]. destruct (is_upper ch); fin.
    + apply Nat.eqb_neq in EQ. unfold parse_isotope_slice; simpl. use_sl.
      destruct (parse_u16 t0); simpl; [|fin].
      unfold get_elem; simpl. use_sl. destruct (has_elem t1); simpl; [|fin].
      unfold check_iso. destruct (_ || _); simpl; [|fin].
      unfold start_item; simpl.
      destruct (ch =? LP)%N eqn:P; [ascii_w P; fin|]. destruct (is_upper ch); fin.
  - (* Group *)
    destruct (ch =? RP)%N eqn:P.
    + ascii_w P. simpl. destruct (_ =? 0)%Z; fin.
    + destruct (ch =? LP)%N; fin.
  - (* GroupToGroupCount *)
    destruct (negb (is_numeric uni_numeric ch)) eqn:Nm; [|fin].
    unfold take_group; simpl. use_sl_lt.
    pose proof (rec_safe t L) as RS. destruct (parse_rec t); simpl; [|fin|congruence].
    unfold start_item; simpl.
    destruct (ch =? LP)%N eqn:P; [ascii_w P; fin|]. destruct (is_upper ch); fin.
  - (* GroupCount *)
    destruct (negb (is_numeric uni_numeric ch)) eqn:Nm; [|fin].
    unfold take_group; simpl. use_sl_lt.
    pose proof (rec_safe t L) as RS. destruct (parse_rec t); simpl; [|fin|congruence].
    unfold take_gcount; simpl. use_sl.
    destruct (parse_i32 t0); simpl; [|fin].
    unfold start_item; simpl.
    destruct (ch =? LP)%N eqn:P; [ascii_w P; fin|]. destruct (is_upper ch); fin.
Qed.

Lemma bnd_end : B (blen s).
Proof. exists s, []. rewrite app_nil_r. auto. Qed.

Lemma finish_safe acc c : Inv c (blen s) ->
  finish has_elem has_iso parse_rec s acc c <> Panic.
Proof.
  intros HI. pose proof bnd_end as Be.
  unfold finish. destruct (state c) eqn:St; unfold Inv in HI; rewrite St in HI; try discriminate.
  - (* Element *)
    unfold get_elem; simpl. use_sl. destruct (has_elem t); simpl; discriminate.
  - (* IsotopeToCount *)
    unfold get_elem; simpl. use_sl. destruct (has_elem t); simpl; [|discriminate].
    unfold parse_isotope_slice; simpl. use_sl. destruct (parse_u16 t0); simpl; [|discriminate].
    unfold check_iso. destruct (_ || _); simpl; discriminate.
  - (* Count *)
    unfold take_count; simpl. use_sl. destruct (parse_i32 t); simpl; [|discriminate].
    destruct (Nat.eqb (ie c) (is_ c)) eqn:EQ; simpl.
    + unfold get_elem; simpl. use_sl. destruct (has_elem t0); simpl; discriminate.
    + apply Nat.eqb_neq in EQ. unfold parse_isotope_slice; simpl. use_sl.
      destruct (parse_u16 t0); simpl; [|discriminate].
      unfold get_elem; simpl. use_sl. destruct (has_elem t1); simpl; [|discriminate].
      unfold check_iso. destruct (_ || _); simpl; discriminate.
  - (* GroupToGroupCount *)
    unfold take_group; simpl. use_sl_lt.
    pose proof (rec_safe t L) as RS. destruct (parse_rec t); simpl; [discriminate|discriminate|congruence].
  - (* GroupCount *)
    unfold take_group; simpl. use_sl_lt.
    pose proof (rec_safe t L) as RS. destruct (parse_rec t); simpl; [|discriminate|congruence].
    unfold take_gcount; simpl. use_sl. destruct (parse_i32 t0); simpl; discriminate.
Qed.

Lemma run_safe suf : forall pre acc c, s = pre ++ suf -> Inv c (blen pre) ->
  run uni_numeric has_elem has_iso parse_rec s acc c (indices suf (blen pre)) <> Panic.
Proof.
  induction suf as [|ch suf IH]; intros pre acc c Es HI; simpl.
  - rewrite app_nil_r in Es. subst pre. apply finish_safe; auto.
  - assert (Bi : B (blen pre)) by (exists pre, (ch :: suf); auto).
    assert (Bi' : B (blen pre + width ch)).
    { exists (pre ++ [ch]), suf. split. rewrite <- app_assoc; auto. rewrite blen_app; simpl; lia. }
    pose proof (step_safe acc c (blen pre) ch HI Bi Bi') as G.
    destruct (step uni_numeric has_elem has_iso parse_rec s acc c (blen pre) ch) as [[acc' c']|e|]; simpl in *; try discriminate; [|contradiction].
    replace (blen pre + width ch) with (blen (pre ++ [ch])) in * by (rewrite blen_app; simpl; lia).
    apply IH; auto. rewrite <- app_assoc; auto.
Qed.
End Safety.

Theorem parse_safe uni_numeric has_elem has_iso : forall fuel s, length s < fuel ->
  parse uni_numeric has_elem has_iso fuel s <> Panic.
Proof.
  induction fuel as [|f IH]; intros s L; [lia|]. simpl.
  apply (run_safe uni_numeric has_elem has_iso s (parse uni_numeric has_elem has_iso f)) with (pre := []) (suf := s); auto.
  - intros t Lt. apply IH. lia.
  - unfold Inv, cfg0, iso_clean; simpl. auto.
Qed.

Corollary parse_formula_no_panic uni_numeric has_elem has_iso s :
  parse_formula uni_numeric has_elem has_iso s <> Panic.
Proof. unfold parse_formula. apply parse_safe. lia. Qed.
Print Assumptions parse_formula_no_panic.
