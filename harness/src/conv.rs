//! C11 (and the convolution part of C10): isotopic_convolution on small compositions.
use crate::brain::{build, peaks_json};
use crate::util::{guarded, hexf, Rng};
use chemical_elements::isotopic_pattern::isotopic_convolution;
use chemical_elements::{ChemicalComposition, PERIODIC_TABLE, PROTON};
use serde_json::{json, Value};

fn ents_json(c: &ChemicalComposition) -> Value {
    Value::Array(c.iter().map(|(k, v)| {
        let order: Vec<u16> = k.element.isotopes.keys().copied().collect();   // the map's iteration order
        json!([k.element.symbol, order, v])
    }).collect())
}

/// number of arrangements of the full expansion: prod (isotopes ^ count)
fn arrangements(ents: &[(String, u16, i32)]) -> f64 {
    ents.iter().map(|(s, _, n)| (PERIODIC_TABLE[s.as_str()].isotopes.len() as f64).powi(*n)).product()
}
/// number of distinct isotopologues: prod C(n + k - 1, k - 1)
fn logues(ents: &[(String, u16, i32)]) -> f64 {
    ents.iter().map(|(s, _, n)| {
        let k = PERIODIC_TABLE[s.as_str()].isotopes.len() as i32;
        let mut r = 1.0; for i in 1..k { r = r * (*n + i) as f64 / i as f64; } r
    }).product()
}

pub fn run(args: &[String]) {
    let seed: u64 = args.get(0).and_then(|s| s.parse().ok()).unwrap_or(0);
    let n: usize = args.get(1).and_then(|s| s.parse().ok()).unwrap_or(50);
    let max_logues: f64 = args.get(2).and_then(|s| s.parse().ok()).unwrap_or(400.0);
    let mut rng = Rng::new(seed ^ 0xC11);
    let counts = [0, 1, 2, 3, 4, 5, 6, 6, 7, 8, 9, 10, 11, 12, 13, 14, 15, 16, 17, 31, 32, 33];
    let thresholds = [0.0, 0.0, 0.0, 1e-12, 1e-9, 1e-6, 1e-4, 1e-3, 1e-3, 1e-2, 1e-2, 3e-2, 0.5, 0.9999];
    let syms = ["C", "H", "N", "O", "S", "Cl", "Br", "K", "B", "Li", "Si", "Mg", "F", "Na", "P", "Fe", "Cu", "Se", "Sm"];
    let mut id = 0;
    let mut fixed: Vec<(Vec<(String, u16, i32)>, f64)> = vec![
        (vec![], 0.0), (vec![("C".into(), 0, 2)], 0.9999), (vec![("C".into(), 0, 3), ("O".into(), 0, 4)], 0.001),
        (vec![("C".into(), 0, 0)], 0.0), (vec![("Cl".into(), 0, 2), ("Br".into(), 0, 1)], 0.0),
        // samarium: two different isotopologues of Sm2 (150+150 and 148+152) lie 5e-6 Da apart -- distinct peaks, each with its own share
        (vec![("Sm".into(), 0, 2)], 0.0), (vec![("Sm".into(), 0, 2)], 1e-3), (vec![("Sm".into(), 0, 3), ("C".into(), 0, 1)], 1e-4),
        // a leading element whose every arrangement falls below the threshold, followed by more elements:
        // nothing may come back (an emptied accumulator must stay empty)
        (vec![("Br".into(), 0, 3), ("H".into(), 0, 2)], 0.5), (vec![("Cl".into(), 0, 4), ("C".into(), 0, 2), ("H".into(), 0, 1)], 0.9999),
        (vec![("Se".into(), 0, 4), ("H".into(), 0, 2)], 0.3),
    ];
    while id < n {
        let (ents, thr) = if let Some(f) = fixed.pop() { f } else {
            let k = 1 + rng.below(3);
            let mut v: Vec<(String, u16, i32)> = Vec::new();
            for _ in 0..k {
                let s = rng.pick(&syms).to_string();
                if v.iter().any(|(x, _, _)| *x == s) { continue; }
                v.push((s, 0, *rng.pick(&counts)));
            }
            (v, *rng.pick(&thresholds))
        };
        // keep the exact reference affordable
        let max_arr: f64 = args.get(3).and_then(|s| s.parse().ok()).unwrap_or(2500.0);
        if arrangements(&ents) > max_arr || logues(&ents) > max_logues { continue; }
        let as_map = rng.chance(1, 3);
        let charge = if rng.chance(1, 2) { 0 } else { rng.range(-8, 8) as i32 };
        let carrier = *rng.pick(&[PROTON, 22.989218, 0.000549, 0.0]);
        let c = build(&ents, as_map);
        let out = guarded(|| isotopic_convolution(c.clone(), charge, carrier, thr));
        let mut rec = json!({"id": id, "ents": ents_json(&c), "rep": if as_map { "map" } else { "vec" }, "charge": charge,
                             "carrier": hexf(carrier), "thr": hexf(thr),
                             "out": match out { Ok(p) => peaks_json(&p), Err(_) => json!("panic") }});
        if charge != 0 {
            let neutral = guarded(|| isotopic_convolution(c.clone(), 0, carrier, thr));
            rec["neutral"] = match neutral { Ok(p) => peaks_json(&p), Err(_) => json!("panic") };
        }
        println!("{}", rec);
        id += 1;
    }
}
