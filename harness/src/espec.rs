//! C16 (and the key part of C07): ElementSpecification text, string-keyed reads.
use crate::util::{guarded, Rng};
use chemical_elements::{
    ChemicalComposition, ChemicalCompositionMap, ChemicalCompositionVec, ChemicalElements, ElementSpecification,
    ElementSpecificationParsingError, PERIODIC_TABLE,
};
use std::sync::LazyLock;
static HELPER: LazyLock<ChemicalElements<'static>> = LazyLock::new(ChemicalElements::new);
use serde_json::{json, Value};

pub const ALPHABET: [char; 19] = ['C', 'H', 'l', 'c', 'A', '1', '3', '0', '[', ']', 'é', '𝟚', ' ', '+', '*', 'e', 'U', 'u', 'o'];

fn parse_out(r: Result<Result<ElementSpecification<'_>, ElementSpecificationParsingError>, String>) -> Value {
    match r {
        Ok(Ok(k)) => json!({"ok": [k.element.symbol, k.isotope]}),
        Ok(Err(e)) => json!({"err": e as u32}),
        Err(_) => json!("panic"),
    }
}

fn reads(s: &str, v: &ChemicalCompositionVec, m: &ChemicalCompositionMap, ev: &ChemicalComposition, em: &ChemicalComposition) -> Vec<i64> {
    let g = |f: &dyn Fn() -> i32| guarded(|| f() as i64).unwrap_or(-999999);
    vec![g(&|| v[s]), g(&|| v.get_str(s)), g(&|| m[s]), g(&|| m.get_str(s)), g(&|| ev[s]), g(&|| ev.get_str(s)), g(&|| em[s]), g(&|| em.get_str(s))]
}

fn emit(id: usize, s: &str, comps: &(ChemicalCompositionVec<'static>, ChemicalCompositionMap<'static>, ChemicalComposition<'static>, ChemicalComposition<'static>)) {
    let p1 = parse_out(guarded(|| ElementSpecification::parse(s)));
    let p2 = parse_out(guarded(|| s.parse::<ElementSpecification>()));
    let p3 = parse_out(guarded(|| ElementSpecification::parse_with(s, &PERIODIC_TABLE)));
    let p4 = parse_out(guarded(|| HELPER.parse_element(s)));
    let same = p1 == p2 && p2 == p3 && p3 == p4;
    println!("{}", json!({"id": id, "s": s, "parse": if same { json!([p1]) } else { json!([p1, p2, p3, p4]) },
                          "reads": reads(s, &comps.0, &comps.1, &comps.2, &comps.3)}));
}

pub fn run(args: &[String]) {
    let mode = args.get(0).map(|s| s.as_str()).unwrap_or("exh");
    let seed: u64 = args.get(1).and_then(|s| s.parse().ok()).unwrap_or(0);
    let n: usize = args.get(2).and_then(|s| s.parse().ok()).unwrap_or(3);
    let key = |s: &str, i: u16| ElementSpecification::new(&PERIODIC_TABLE[s], i);
    let pairs = vec![(key("C", 0), 2), (key("C", 13), 5), (key("H", 0), 7), (key("Cl", 37), 3), (key("Ac", 0), 4), (key("Uuo", 0), 6), (key("H+", 0), 8)];
    let v: ChemicalCompositionVec = pairs.clone().into_iter().collect();
    let m: ChemicalCompositionMap = pairs.clone().into_iter().collect();
    let ev: ChemicalComposition = pairs.clone().into();
    let em: ChemicalComposition = ev.clone().into_map();
    let comps = (v, m, ev, em);
    if mode != "exhc" { println!("{}", json!({"comp": [["C", 0, 2], ["C", 13, 5], ["H", 0, 7], ["Cl", 37, 3], ["Ac", 0, 4], ["Uuo", 0, 6], ["H+", 0, 8]]})); }
    match mode {
        "pairs" => {
            // every (element, isotope-or-none) pair of the table: render, parse back, serde round trip
            let mut syms: Vec<&String> = PERIODIC_TABLE.elements.keys().collect();
            syms.sort();
            let mut id = 0;
            for s in syms {
                let e = &PERIODIC_TABLE[s.as_str()];
                let mut isos: Vec<u16> = e.isotopes.keys().copied().collect();
                isos.sort();
                let mut all = vec![0u16];
                all.extend(isos.iter().copied().filter(|i| *i != 0));
                for i in all {
                    let k = ElementSpecification::new(e, i);
                    let text = k.to_string();
                    let back = parse_out(guarded(|| ElementSpecification::parse(&text)));
                    let js = guarded(|| serde_json::to_string(&k).unwrap()).unwrap_or_else(|_| "<panic>".into());
                    let de = parse_out(guarded(|| serde_json::from_str::<ElementSpecification>(&js).map_err(|_| ElementSpecificationParsingError::UnknownElement)));
                    println!("{}", json!({"id": id, "pair": [s, i], "text": text, "back": back, "json": js, "de": de}));
                    id += 1;
                }
            }
        }
        "exhc" => {
            // compact lines for the extracted evaluator.  seed 0: every string of length <= n; seed k in 1..=19: the strings of
            // length exactly n that start with ALPHABET[k-1]
            use std::io::Write;
            let stdout = std::io::stdout();
            let mut out = std::io::BufWriter::with_capacity(1 << 20, stdout.lock());
            let cps = |t: &str, sep: &str| t.chars().map(|c| (c as u32).to_string()).collect::<Vec<_>>().join(sep);
            writeln!(out, "COMP {}", [("C", 0, 2), ("C", 13, 5), ("H", 0, 7), ("Cl", 37, 3), ("Ac", 0, 4), ("Uuo", 0, 6), ("H+", 0, 8)].iter()
                .map(|(s, i, n)| format!("{}:{}:{}", cps(s, "."), i, n)).collect::<Vec<_>>().join(";")).unwrap();
            let enc = |o: &Value| -> String {
                if o == "panic" { return "P".to_string(); }
                if let Some(e) = o.get("err") { return format!("E{}", e); }
                format!("O{}:{}", cps(o["ok"][0].as_str().unwrap(), "."), o["ok"][1])
            };
            let a = ALPHABET.len();
            let (lens, first): (Vec<usize>, Option<usize>) =
                if seed == 0 { ((0..=n).collect(), None) } else { (vec![n], Some(seed as usize - 1)) };
            for len in lens {
                let free = if first.is_some() { len - 1 } else { len };
                let total = (a as u64).pow(free as u32);
                for mut code in 0..total {
                    let mut idx = vec![0usize; free];
                    for q in (0..free).rev() { idx[q] = (code % a as u64) as usize; code /= a as u64; }
                    let mut s = String::new();
                    if let Some(f) = first { s.push(ALPHABET[f]); }
                    for i in idx { s.push(ALPHABET[i]); }
                    let p1 = parse_out(guarded(|| ElementSpecification::parse(&s)));
                    let p2 = parse_out(guarded(|| s.parse::<ElementSpecification>()));
                    let p3 = parse_out(guarded(|| ElementSpecification::parse_with(&s, &PERIODIC_TABLE)));
                    let p4 = parse_out(guarded(|| HELPER.parse_element(&s)));
                    let ps = if p1 == p2 && p2 == p3 && p3 == p4 { enc(&p1) } else { [&p1, &p2, &p3, &p4].iter().map(|p| enc(p)).collect::<Vec<_>>().join(";") };
                    let rs = reads(&s, &comps.0, &comps.1, &comps.2, &comps.3).iter().map(|z| z.to_string()).collect::<Vec<_>>().join(",");
                    writeln!(out, "{}|{}|{}", cps(&s, ","), ps, rs).unwrap();
                }
            }
        }
        "exh" => {
            let mut id = 0usize;
            let mut idx: Vec<usize> = Vec::new();
            loop {
                let s: String = idx.iter().map(|i| ALPHABET[*i]).collect();
                emit(id, &s, &comps);
                id += 1;
                let mut p = idx.len();
                loop {
                    if p == 0 { idx = vec![0; idx.len() + 1]; break; }
                    p -= 1;
                    if idx[p] + 1 < ALPHABET.len() { idx[p] += 1; for q in p + 1..idx.len() { idx[q] = 0; } break; }
                }
                if idx.len() > n { break; }
            }
        }
        _ => {
            let mut rng = Rng::new(seed ^ 0xC16);
            let mut syms: Vec<&String> = PERIODIC_TABLE.elements.keys().collect();
            syms.sort();
            let junk = ['[', ']', ' ', '0', '9', 'x', 'é', '𝟚', '+', '-', '1', '3', '7'];
            for id in 0..n {
                let s = match rng.below(4) {
                    0 => { let len = rng.below(9); (0..len).map(|_| *rng.pick(&ALPHABET)).collect::<String>() }
                    _ => {
                        let sym = rng.pick(&syms).to_string();
                        let e = &PERIODIC_TABLE[sym.as_str()];
                        let mut ks: Vec<u16> = e.isotopes.keys().copied().collect(); ks.sort();
                        let mut t = match rng.below(4) { 0 => sym.clone(), 1 => format!("{}[{}]", sym, rng.pick(&ks)), 2 => format!("{}[0{}]", sym, rng.pick(&ks)),
                                                         _ => format!("{}[{}]", sym, rng.below(70000)) };
                        if rng.chance(1, 8) {
                            // one letter replaced by a non-ASCII character whose Unicode case mapping (or appearance) lands on it: never a table symbol
                            let twins: [(char, char); 10] = [('K', '\u{212A}'), ('k', '\u{212A}'), ('S', '\u{017F}'), ('s', '\u{017F}'), ('s', '\u{00DF}'),
                                                             ('I', '\u{0131}'), ('i', '\u{0131}'), ('i', '\u{0130}'), ('H', '\u{FF28}'), ('C', '\u{0421}')];
                            let cs: Vec<char> = t.chars().collect();
                            let hits: Vec<(usize, char)> = cs.iter().enumerate().flat_map(|(q, c)| twins.iter().filter(move |(a, _)| a == c).map(move |(_, r)| (q, *r))).collect();
                            if !hits.is_empty() { let (q, r) = *rng.pick(&hits); t = cs.iter().enumerate().map(|(i, c)| if i == q { r } else { *c }).collect(); }
                        } else if rng.chance(1, 2) {
                            let mut cs: Vec<char> = t.chars().collect();
                            let pos = rng.below(cs.len() as u64 + 1) as usize;
                            match rng.below(3) { 0 => { if !cs.is_empty() { cs.remove(pos.min(cs.len() - 1)); } } 1 => cs.insert(pos, *rng.pick(&junk)),
                                                 _ => { if !cs.is_empty() { let p = pos.min(cs.len() - 1); cs[p] = *rng.pick(&junk); } } }
                            t = cs.into_iter().collect();
                        }
                        t
                    }
                };
                emit(id, &s, &comps);
            }
        }
    }
}
