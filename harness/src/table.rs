//! C12: dump every public field of the two runtime tables.
use crate::util::hexf;
use chemical_elements::{ChemicalElements, PeriodicTable, PERIODIC_TABLE};
use serde_json::{json, Value};

fn dump(t: &PeriodicTable) -> Value {
    let mut keys: Vec<&String> = t.elements.keys().collect();
    keys.sort();
    let mut out = Vec::new();
    for k in keys {
        let e = &t.elements[k];
        let mut iks: Vec<&u16> = e.isotopes.keys().collect();
        iks.sort();
        let isos: Vec<Value> = iks
            .iter()
            .map(|ik| {
                let i = &e.isotopes[ik];
                json!({"key": **ik, "mass": hexf(i.mass), "ab": hexf(i.abundance),
                       "neutrons": i.neutrons, "shift": i.neutron_shift})
            })
            .collect();
        out.push(json!({"mapkey": k, "sym": e.symbol, "mai": e.most_abundant_isotope,
            "mam": hexf(e.most_abundant_mass), "number": e.element_number,
            "min": e.min_neutron_shift, "max": e.max_neutron_shift, "isos": isos}));
    }
    Value::Array(out)
}

pub fn run() {
    let global = dump(&PERIODIC_TABLE);
    let ce = ChemicalElements::new();
    let fresh = dump(&ce.periodic_table);
    println!("{}", json!({"global": global, "fresh": fresh}));
}
