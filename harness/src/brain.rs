//! C03 / C08 / C09 / C10: the coarse (BRAIN) pattern generator, stateless and through the generator object.
use crate::util::{guarded, hexf, Rng};
use chemical_elements::isotopic_pattern::baffling::{IsotopicDistribution, NumPeaksSpec};
use chemical_elements::isotopic_pattern::{isotopic_variants, BafflingRecursiveIsotopicPatternGenerator, Peak};
use chemical_elements::{ChemicalComposition, ElementSpecification, PERIODIC_TABLE, PROTON};
use serde_json::{json, Value};

#[derive(Clone, Debug)]
pub enum Req { I32(i32), Usize(usize), Opt(Option<i32>), F32(f32) }

impl Req {
    pub fn json(&self) -> Value {
        match self {
            Req::I32(n) => json!({"i32": n}), Req::Usize(n) => json!({"usize": n}),
            Req::Opt(o) => json!({"opt": o}), Req::F32(f) => json!({"f32": hexf(*f as f64)}),
        }
    }
    pub fn spec(&self) -> NumPeaksSpec {
        match self { Req::I32(n) => (*n).into(), Req::Usize(n) => (*n).into(), Req::Opt(o) => (*o).into(), Req::F32(f) => (*f).into() }
    }
}

pub fn build(ents: &[(String, u16, i32)], as_map: bool) -> ChemicalComposition<'static> {
    let mut c = ChemicalComposition::new();
    if as_map { c = c.into_map(); }
    for (s, i, n) in ents { c.set(ElementSpecification::new(&PERIODIC_TABLE[s.as_str()], *i), *n); }
    c
}

fn iter_order(c: &ChemicalComposition) -> Value {
    Value::Array(c.iter().map(|(k, v)| json!([k.element.symbol, k.isotope, v])).collect())
}
pub fn peaks_json(p: &[Peak]) -> Value { Value::Array(p.iter().map(|q| json!([hexf(q.mz), hexf(q.intensity)])).collect()) }

pub fn base_of(c: &ChemicalComposition<'static>) -> f64 {
    guarded(|| IsotopicDistribution::from_composition(c.clone(), 3).monoisotopic_peak.intensity).unwrap_or(f64::NAN)
}

pub fn one_case(id: usize, ents: &[(String, u16, i32)], as_map: bool, req: &Req, charge: i32, carrier: f64, tag: &str) -> Value {
    let c = build(ents, as_map);
    let out = guarded(|| isotopic_variants(c.clone(), req.spec(), charge, carrier));
    json!({"id": id, "tag": tag, "ents": iter_order(&c), "rep": if as_map { "map" } else { "vec" }, "req": req.json(),
           "charge": charge, "carrier": hexf(carrier), "base": hexf(base_of(&c)),
           "mass": hexf(guarded(|| c.mass()).unwrap_or(f64::NAN)),
           "out": match out { Ok(p) => peaks_json(&p), Err(_) => json!("panic") }})
}

/// elements whose lightest isotope is the most abundant one and whose ladder has no gap below the top
pub fn classes() -> (Vec<String>, Vec<String>, Vec<String>) {
    let mut faithful = Vec::new(); let mut gap = Vec::new(); let mut lighter = Vec::new();
    let mut syms: Vec<&String> = PERIODIC_TABLE.elements.keys().collect();
    syms.sort();
    for s in syms {
        let e = &PERIODIC_TABLE[s.as_str()];
        if e.min_neutron_shift < 0 { lighter.push(s.clone()); continue; }
        let n = e.isotopes.len() as i32;
        let contiguous = e.isotopes.values().all(|i| (i.neutron_shift as i32) < n);
        if contiguous { faithful.push(s.clone()) } else { gap.push(s.clone()) }
    }
    (faithful, gap, lighter)
}

pub fn gen_comp(rng: &mut Rng, pool: &[String], max_elems: u64, max_count: u64) -> Vec<(String, u16, i32)> {
    let k = 1 + rng.below(max_elems);
    let mut v: Vec<(String, u16, i32)> = Vec::new();
    for _ in 0..k {
        let s = if rng.chance(3, 4) { rng.pick(&["C", "H", "N", "O", "K", "Mg", "Si"]).to_string() } else { rng.pick(pool).clone() };
        if v.iter().any(|(x, _, _)| *x == s) { continue; }
        let n = match rng.below(6) { 0 => 1, 1 => rng.below(6) as i32, 2 => rng.below(max_count) as i32, _ => rng.below(60) as i32 };
        v.push((s, 0, n));
    }
    v
}

fn gen_req(rng: &mut Rng) -> Req {
    match rng.below(10) {
        0 => Req::I32(0), 1 => Req::Usize(0), 2 => Req::Opt(None),
        3 => Req::F32(*rng.pick(&[0.5f32, 0.9, 0.95, 0.99, 0.999, 0.9999, 0.0, 1.0])),
        4 => Req::Usize(1 + rng.below(40) as usize), 5 => Req::Opt(Some(1 + rng.below(40) as i32)),
        6 => Req::I32(2 + rng.below(299) as i32),
        _ => Req::I32(1 + rng.below(30) as i32),
    }
}

pub fn run(args: &[String]) {
    let mode = args.get(0).map(|s| s.as_str()).unwrap_or("c03").to_string();
    let seed: u64 = args.get(1).and_then(|s| s.parse().ok()).unwrap_or(0);
    let n: usize = args.get(2).and_then(|s| s.parse().ok()).unwrap_or(50);
    let mut rng = Rng::new(seed ^ 0xB8A1);
    let (faithful, gap, lighter) = classes();
    println!("{}", json!({"faithful": faithful, "gap": gap, "lighter": lighter}));
    let carriers = [PROTON, 22.989218, 0.000549, 0.0];
    match mode.as_str() {
        "c03" => {
            let mut id = 0;
            // every single atom of the table
            let mut syms: Vec<&String> = PERIODIC_TABLE.elements.keys().collect();
            syms.sort();
            for s in syms { println!("{}", one_case(id, &[(s.clone(), 0, 1)], false, &Req::I32(0), 0, PROTON, "single")); id += 1; }
            for i in 0..n {
                let with_gap = i % 4 == 3;
                let pool: Vec<String> = if with_gap { faithful.iter().chain(gap.iter()).cloned().collect() } else { faithful.clone() };
                let big = rng.chance(1, 6);
                let mut ents = gen_comp(&mut rng, &pool, 5, if big { 3000 } else { 200 });
                if ents.iter().all(|e| e.2 == 0) { ents[0].2 = 3; }
                if rng.chance(1, 2) { let k = rng.below(ents.len() as u64) as usize; ents.rotate_left(k); }
                let req = if big { Req::I32(*rng.pick(&[0, 5, 12, 30])) } else { gen_req(&mut rng) };
                let charge = if rng.chance(1, 2) { 0 } else { rng.range(-8, 8) as i32 };
                println!("{}", one_case(id, &ents, rng.chance(1, 3), &req, charge, *rng.pick(&carriers), if with_gap { "mixed" } else { "faithful" }));
                id += 1;
                // the struct entry point: IsotopicDistribution::from_composition(c, n).isotopic_variants(z, carrier) computes
                // order n (one more variant than the free function's request for n peaks)
                if i % 5 == 0 && !with_gap {
                    let n = 1 + rng.below(25) as i32;
                    let c = build(&ents, false);
                    let carrier = *rng.pick(&carriers);
                    let out = guarded(|| IsotopicDistribution::from_composition(c.clone(), n).isotopic_variants(charge, carrier));
                    println!("{}", json!({"id": id, "tag": "struct", "ents": c.iter().map(|(k, v)| json!([k.element.symbol, k.isotope, v])).collect::<Vec<_>>(),
                        "rep": "vec", "req": {"i32": n + 1}, "charge": charge, "carrier": hexf(carrier), "base": hexf(base_of(&c)),
                        "mass": hexf(guarded(|| c.mass()).unwrap_or(f64::NAN)),
                        "out": match out { Ok(p) => peaks_json(&p), Err(_) => json!("panic") }}));
                    id += 1;
                }
            }
        }
        "c09" => {
            let mut id = 0;
            // one generator object lives through the whole run: its answer to each request must be the free function's
            let mut long_lived = BafflingRecursiveIsotopicPatternGenerator::new();
            for i in 0..n {
                let ents = match i % 5 { 0 => vec![("C".to_string(), 0, 6), ("H".to_string(), 0, 12), ("O".to_string(), 0, 6)],
                                         1 => vec![("K".to_string(), 0, 300)],
                                         2 => if i % 10 == 2 { vec![("Cl".to_string(), 0, 2)] } else { vec![("C".to_string(), 0, 2)] },
                                         // far beyond the stated domain's size: the monoisotopic probability itself is below f64's range
                                         // a few hundred kDa: variants beyond neutron excess 300 still carry more than 2e-10 of the signal
                                         4 if i == 19 => vec![("C".to_string(), 0, 15000), ("H".to_string(), 0, 30000), ("O".to_string(), 0, 15000)],
                                         4 if i % 10 == 9 => match (i / 10) % 3 { 0 => vec![("C".to_string(), 0, 70000)],
                                                                                  1 => vec![("K".to_string(), 0, 11000), ("O".to_string(), 0, 3)],
                                                                                  _ => vec![("C".to_string(), 0, 100000), ("H".to_string(), 0, 150000), ("O".to_string(), 0, 30000)] },
                                         _ => { let mut e = gen_comp(&mut rng, &faithful, 4, 400); if e.iter().all(|x| x.2 == 0) { e[0].2 = 2; } e } };
                let reqs: Vec<Req> = match i % 3 {
                    0 => vec![// on the per-composition generator (fresh for every composition): each of these needs exactly two more terms than the
                              // one before it, then one more, then fewer
                              Req::I32(3), Req::I32(5), Req::I32(7), Req::I32(9), Req::I32(10), Req::I32(4),
                              Req::I32(-3), Req::I32(-1), Req::I32(0), Req::I32(1), Req::I32(2), Req::I32(3), Req::I32(rng.range(4, 320) as i32),
                              Req::I32(i32::MAX), Req::I32(i32::MIN), Req::Usize(0), Req::Usize(1), Req::Usize(rng.below(320) as usize), Req::Opt(None), Req::Opt(Some(1))],
                    1 => (0..8).map(|_| Req::I32(rng.range(-3, 320) as i32)).collect(),
                    _ => vec![Req::F32(0.0), Req::F32(1.0), Req::F32(rng.below(101) as f32 / 100.0), Req::F32(0.9999), Req::F32(0.5)],
                };
                // (huge compositions: short fixed requests only -- the exact oracle's cost grows with order^2)
                let reqs = if i == 19 { vec![Req::I32(301), Req::I32(302), Req::I32(320)] } else if i % 10 == 9 { vec![Req::I32(1), Req::I32(2), Req::I32(6), Req::Usize(12), Req::Opt(Some(3))] } else { reqs };
                // a second generator object, fresh for every composition: it sees exactly this composition's request sequence
                let mut per_comp = BafflingRecursiveIsotopicPatternGenerator::new();
                for r in reqs {
                    let charge = *rng.pick(&[0, 0, 1, 2, -1]);
                    let as_map = rng.chance(1, 4);
                    let mut rec = one_case(id, &ents, as_map, &r, charge, PROTON, "c09");
                    {
                        let c = build(&ents, as_map);
                        let spec = r.spec();
                        let g = guarded(|| per_comp.isotopic_variants(c, spec, charge, PROTON));
                        rec["gen2_out"] = match g { Ok(p) => peaks_json(&p), Err(_) => { per_comp = BafflingRecursiveIsotopicPatternGenerator::new(); json!("panic") } };
                    }
                    {
                        let c = build(&ents, as_map);
                        let spec = r.spec();
                        let g = guarded(|| long_lived.isotopic_variants(c, spec, charge, PROTON));
                        rec["gen_out"] = match g { Ok(p) => peaks_json(&p), Err(_) => { long_lived = BafflingRecursiveIsotopicPatternGenerator::new(); json!("panic") } };
                    }
                    // a request by signal fraction must equal a fixed request for the Poisson estimate of the fraction
                    if let Req::F32(f) = r {
                        let c = build(&ents, false);
                        let k = chemical_elements::isotopic_pattern::poisson_approximate_n_peaks_of(c.mass(), f as f64) as i32;
                        let alt = guarded(|| isotopic_variants(c.clone(), k, charge, PROTON));
                        rec["alt_fixed"] = json!({"n": k, "out": match alt { Ok(p) => peaks_json(&p), Err(_) => json!("panic") }});
                    }
                    println!("{}", rec);
                    id += 1;
                }
            }
        }
        "mz" => {
            // the two conversion functions of mz.rs called directly: every non-zero charge in -8..=8, four carriers
            use chemical_elements::{mass_charge_ratio, neutral_mass};
            let mut id = 0;
            for k in 0..n {
                let m = match k % 4 { 0 => rng.unit() * 3000.0, 1 => rng.unit() * 1e6, 2 => rng.unit() * 50.0, _ => 1.0 + rng.unit() * 2e4 };
                for z in -8..=8i32 {
                    if z == 0 { continue; }
                    let carrier = carriers[(k + z.unsigned_abs() as usize) % 4];
                    let mcr = mass_charge_ratio(m, z, carrier);
                    println!("{}", json!({"id": id, "m": hexf(m), "z": z, "carrier": hexf(carrier), "mcr": hexf(mcr),
                                          "inv": hexf(neutral_mass(mcr, z, carrier)), "nm": hexf(neutral_mass(m, z, carrier))}));
                    id += 1;
                }
            }
        }
        "c10" => {
            // neutral masses next to a boundary of the default peak-count estimate, with carriers and charges that carry the ion mass
            // across it: the number of peaks must not depend on the charge
            let edge: Vec<(Vec<(String, u16, i32)>, Req, i32, f64)> = vec![
                (vec![("C".into(), 0, 6), ("H".into(), 0, 12), ("O".into(), 0, 6)], Req::I32(0), -8, 22.989218),
                (vec![("C".into(), 0, 35), ("H".into(), 0, 55), ("O".into(), 0, 15), ("N".into(), 0, 7)], Req::Opt(None), 1, PROTON),
                (vec![("C".into(), 0, 12), ("H".into(), 0, 22), ("O".into(), 0, 11)], Req::F32(0.9999), 8, 22.989218),
                (vec![("C".into(), 0, 2), ("H".into(), 0, 2)], Req::Usize(0), 3, 22.989218),
                (vec![("C".into(), 0, 60), ("H".into(), 0, 90), ("O".into(), 0, 30)], Req::I32(0), -6, 22.989218),
                (vec![("C".into(), 0, 10), ("H".into(), 0, 16), ("N".into(), 0, 5), ("O".into(), 0, 13), ("P".into(), 0, 3)], Req::F32(0.99), 7, 22.989218),
            ];
            // the reusable generator object is an entry point of the coarse generator too: one instance lives through the run and is asked,
            // back to back, for the same (composition, request, charge) with two different carriers, then for the neutral pattern
            let mut long_lived = BafflingRecursiveIsotopicPatternGenerator::new();
            for id in 0..n {
                let fixed = edge.get(id).cloned();
                let mut ents = gen_comp(&mut rng, &faithful, 4, 300);
                if ents.iter().all(|x| x.2 == 0) { ents[0].2 = 2; }
                let mut req = gen_req(&mut rng);
                let mut carrier = *rng.pick(&carriers);
                let mut charge = { let z = rng.range(-8, 8) as i32; if z == 0 { 3 } else { z } };
                if let Some((e, r, z, cr)) = fixed { ents = e; req = r; charge = z; carrier = cr; }
                let mut rec = one_case(id, &ents, false, &req, charge, carrier, "c10");
                let c = build(&ents, false);
                let neutral = guarded(|| isotopic_variants(c.clone(), req.spec(), 0, carrier));
                rec["neutral"] = match neutral { Ok(p) => peaks_json(&p), Err(_) => json!("panic") };
                {
                    let carrier2 = carriers[(carriers.iter().position(|x| *x == carrier).unwrap_or(0) + 1 + id % 3) % 4];
                    let mut call = |z: i32, cr: f64| { let cc = c.clone(); let sp = req.spec();
                        match guarded(|| long_lived.isotopic_variants(cc, sp, z, cr)) { Ok(p) => peaks_json(&p), Err(_) => json!("panic") } };
                    let first = call(charge, carrier);
                    let second = call(charge, carrier2);
                    let gneutral = call(0, carrier);
                    if first == json!("panic") || second == json!("panic") || gneutral == json!("panic") { long_lived = BafflingRecursiveIsotopicPatternGenerator::new(); }
                    rec["gen2"] = json!({"carrier2": hexf(carrier2), "first": first, "second": second, "neutral": gneutral});
                }
                println!("{}", rec);
            }
        }
        _ => {
            // c08: call histories on one generator, plus concurrent use
            let pool: Vec<(Vec<(String, u16, i32)>, Req, i32, f64)> = vec![
                (vec![("C".into(), 0, 6), ("H".into(), 0, 12), ("O".into(), 0, 6)], Req::I32(5), 1, PROTON),
                (vec![("C".into(), 0, 600), ("H".into(), 0, 1200), ("O".into(), 0, 600)], Req::I32(40), 2, PROTON),
                (vec![("C".into(), 0, 2)], Req::I32(3), 0, PROTON),
                (vec![("H".into(), 0, 2), ("O".into(), 0, 1)], Req::I32(0), 1, PROTON),
                (vec![("C".into(), 0, 60), ("N".into(), 0, 10), ("S".into(), 0, 2)], Req::I32(12), -1, PROTON),
                (vec![("O".into(), 0, 30), ("C".into(), 0, 1)], Req::I32(25), 1, PROTON),
                (vec![("K".into(), 0, 20), ("C".into(), 0, 300)], Req::F32(0.99), 3, PROTON),
                (vec![("N".into(), 0, 4), ("C".into(), 0, 34), ("H".into(), 0, 53), ("O".into(), 0, 15)], Req::I32(8), 2, PROTON),
                // elements with long isotope ladders: their initial tables are longer than a small request needs
                (vec![("C".into(), 0, 5), ("H".into(), 0, 11), ("N".into(), 0, 1), ("O".into(), 0, 2), ("Se".into(), 0, 1)], Req::I32(3), 1, PROTON),
                (vec![("C".into(), 0, 10), ("H".into(), 0, 20), ("N".into(), 0, 2), ("O".into(), 0, 4), ("Se".into(), 0, 2)], Req::I32(12), 2, PROTON),
                (vec![("Sn".into(), 0, 2), ("C".into(), 0, 4)], Req::I32(2), 1, PROTON),
                // the same request as the first one but for the carrier; elements whose `element_number`s collide
                // (Ar / Ca are both 40 in this table) -- a cache or memo keyed on too little confuses them
                (vec![("C".into(), 0, 6), ("H".into(), 0, 12), ("O".into(), 0, 6)], Req::I32(5), 1, 22.989218),
                (vec![("Ar".into(), 0, 3)], Req::I32(4), 1, PROTON),
                (vec![("Ca".into(), 0, 1), ("C".into(), 0, 1), ("O".into(), 0, 3)], Req::I32(6), 1, PROTON),
                // requests that resolve to exactly one peak (fixed 1; a fraction the first peak alone satisfies)
                (vec![("C".into(), 0, 6), ("H".into(), 0, 12), ("O".into(), 0, 6)], Req::Usize(1), 1, PROTON),
                (vec![("H".into(), 0, 2), ("O".into(), 0, 1)], Req::F32(0.5), 0, PROTON),
            ];
            let stateless: Vec<Value> = pool.iter().map(|(e, r, z, cr)| {
                let c = build(e, false);
                match guarded(|| isotopic_variants(c.clone(), r.spec(), *z, *cr)) { Ok(p) => peaks_json(&p), Err(_) => json!("panic") }
            }).collect();
            let cases: Vec<Value> = pool.iter().enumerate().map(|(i, (e, r, z, cr))| one_case(i, e, false, r, *z, *cr, "pool")).collect();
            println!("{}", json!({"pool": cases, "stateless": stateless}));
            let run_hist = |h: &[usize]| -> Vec<Value> {
                let mut g = BafflingRecursiveIsotopicPatternGenerator::new();
                h.iter().map(|i| {
                    let (e, r, z, cr) = &pool[*i];
                    let c = build(e, false);
                    match guarded(|| g.isotopic_variants(c, r.spec(), *z, *cr)) { Ok(p) => peaks_json(&p), Err(_) => json!("panic") }
                }).collect()
            };
            let mut id = 0;
            // all histories up to length `n` over the pool when n <= 4 ... plus random longer ones
            let maxlen = n.min(4);
            let mut hist: Vec<usize> = vec![];
            loop {
                // next history in length-lexicographic order
                let mut p = hist.len();
                loop {
                    if p == 0 { hist = vec![0; hist.len() + 1]; break; }
                    p -= 1;
                    if hist[p] + 1 < pool.len() { hist[p] += 1; for q in p + 1..hist.len() { hist[q] = 0; } break; }
                }
                if hist.len() > maxlen { break; }
                // only histories whose last call differs in need from some earlier call are interesting, but keep all
                println!("{}", json!({"id": id, "kind": "hist", "h": hist, "outs": run_hist(&hist)}));
                id += 1;
            }
            for _ in 0..(n * 5) {
                let len = 5 + rng.below(46) as usize;
                let h: Vec<usize> = (0..len).map(|_| rng.below(pool.len() as u64) as usize).collect();
                println!("{}", json!({"id": id, "kind": "hist", "h": h, "outs": run_hist(&h)}));
                id += 1;
            }
            // concurrent use: 16 threads, each its own generator, plus the stateless function
            let handles: Vec<_> = (0..16).map(|t| {
                let pool = pool.clone();
                std::thread::spawn(move || {
                    let mut g = BafflingRecursiveIsotopicPatternGenerator::new();
                    let mut outs = Vec::new();
                    let mut hs = Vec::new();
                    for j in 0..pool.len() * 2 {
                        let i = (j * 3 + t) % pool.len();
                        let (e, r, z, cr) = &pool[i];
                        let c = build(e, false);
                        let o = if j % 2 == 0 { guarded(|| g.isotopic_variants(c, r.spec(), *z, *cr)) }
                                else { guarded(|| isotopic_variants(c, r.spec(), *z, *cr)) };
                        outs.push(match o { Ok(p) => peaks_json(&p), Err(_) => json!("panic") });
                        hs.push(i);
                    }
                    // stress: two default ("guess") requests of very different mass, alternating out of phase across the threads,
                    // each answer compared with the single-threaded one
                    let small = build(&[("H".to_string(), 0, 2), ("O".to_string(), 0, 1)], false);
                    let large = build(&[("C".to_string(), 0, 1274), ("H".to_string(), 0, 1965), ("N".to_string(), 0, 335), ("O".to_string(), 0, 377), ("S".to_string(), 0, 9)], false);
                    let want_small = peaks_json(&isotopic_variants(small.clone(), 0, 1, PROTON));
                    let want_large = peaks_json(&isotopic_variants(large.clone(), 0, 1, PROTON));
                    let mut bad = 0usize;
                    let mut first: Option<Value> = None;
                    let rounds = 1500usize;
                    for k in 0..rounds {
                        let use_small = (k + t) % 2 == 0;
                        let got = guarded(|| isotopic_variants(if use_small { small.clone() } else { large.clone() }, 0, 1, PROTON)).map(|p| peaks_json(&p)).unwrap_or(json!("panic"));
                        let want = if use_small { &want_small } else { &want_large };
                        if got != *want { bad += 1; if first.is_none() { first = Some(json!({"round": k, "composition": if use_small { "H2O" } else { "C1274H1965N335O377S9" }, "got_peaks": got.as_array().map(|a| a.len()), "want_peaks": want.as_array().map(|a| a.len())})); } }
                    }
                    (hs, outs, rounds, bad, first)
                })
            }).collect();
            for (t, h) in handles.into_iter().enumerate() {
                let (hs, outs, rounds, bad, first) = h.join().unwrap();
                println!("{}", json!({"id": id, "kind": "thread", "thread": t, "h": hs, "outs": outs, "stress_rounds": rounds, "stress_mismatches": bad, "stress_first": first}));
                id += 1;
            }
        }
    }
}
