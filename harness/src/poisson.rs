//! C15 (and the Poisson part of C10): poisson_approximation / poisson_approximate_n_peaks_of.
use crate::util::{guarded, hexf, Rng};
use chemical_elements::isotopic_pattern::{poisson_approximate_n_peaks_of, poisson_approximation};
use serde_json::json;

fn gen_mass(rng: &mut Rng) -> f64 {
    match rng.below(8) {
        0 => 0.0,
        1 => *rng.pick(&[1800.0, 750.0, 1.0, 1e5, 1e9, 39999000.234256, 3600.0, 1e-3]),
        2 => (10f64).powf(rng.unit() * 9.0),
        3 => (10f64).powf(rng.unit() * 5.0),
        _ => rng.unit() * 1e5,
    }
}

pub fn run(args: &[String]) {
    let seed: u64 = args.get(0).and_then(|s| s.parse().ok()).unwrap_or(0);
    let n: usize = args.get(1).and_then(|s| s.parse().ok()).unwrap_or(500);
    let mut rng = Rng::new(seed ^ 0xC15);
    if args.get(2).map(|s| s.as_str()) == Some("charge") {
        // C10: the same request at charge 0 and at charge z
        for id in 0..n {
            let mass = gen_mass(&mut rng).min(1e7);
            let cnt = 1 + rng.below(60) as usize;
            let z = { let z = rng.range(-8, 8) as i32; if z == 0 { -2 } else { z } };
            let f = |zz: i32| match guarded(|| poisson_approximation(mass, cnt, zz)) {
                Ok(p) => json!(p.iter().map(|q| json!([hexf(q.mz), hexf(q.intensity)])).collect::<Vec<_>>()), Err(_) => json!("panic") };
            println!("{}", json!({"id": id, "op": "charge", "mass": hexf(mass), "n": cnt, "z": z, "out": f(z), "neutral": f(0)}));
        }
        return;
    }
    for id in 0..n {
        if id % 2 == 0 {
            let mass = gen_mass(&mut rng);
            let cnt = match rng.below(6) { 0 => 0, 1 => 1, 2 => rng.below(300) as usize, _ => rng.below(151) as usize };
            let z = rng.range(-8, 8) as i32;
            let out = guarded(|| poisson_approximation(mass, cnt, z));
            let o = match out { Ok(p) => json!(p.iter().map(|q| json!([hexf(q.mz), hexf(q.intensity)])).collect::<Vec<_>>()), Err(_) => json!("panic") };
            println!("{}", json!({"id": id, "op": "approx", "mass": hexf(mass), "n": cnt, "z": z, "out": o}));
        } else {
            let mass = gen_mass(&mut rng);
            let t = match rng.below(6) { 0 => 0.0, 1 => 1.0, 2 => *rng.pick(&[0.95, 0.9999, 0.5, 0.99]), _ => rng.below(1001) as f64 / 1000.0 };
            let t2 = if rng.chance(1, 8) { 1.0 } else { (t + rng.unit() * (1.0 - t)).min(1.0) };
            let a = guarded(|| poisson_approximate_n_peaks_of(mass, t));
            let b = guarded(|| poisson_approximate_n_peaks_of(mass, t2));
            println!("{}", json!({"id": id, "op": "npeaks", "mass": hexf(mass), "t": hexf(t), "t2": hexf(t2),
                                  "out": a.ok(), "out2": b.ok()}));
        }
    }
}
