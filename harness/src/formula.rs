//! C01 / C05 / C07: formula parsing through every entry point, on exhaustive short strings,
//! random / mutated strings and grammar-generated formulas.
use crate::util::{guarded, Rng};
use chemical_elements::{
    parse_formula, parse_formula_with_table, ChemicalComposition, ChemicalCompositionMap, ChemicalCompositionVec,
    ChemicalElements, FormulaParserError, PERIODIC_TABLE,
};
use serde_json::{json, Value};

pub const ALPHABET: [char; 14] = ['C', 'l', 'H', 'X', 'e', '2', '0', '[', ']', '(', ')', ' ', 'é', '٣'];

fn err_idx(e: FormulaParserError) -> u32 { e as u32 }

fn canon<'a, I: Iterator<Item = (&'a chemical_elements::ElementSpecification<'a>, &'a i32)>>(it: I) -> Value {
    let mut v: Vec<(String, u16, i32)> = it.map(|(k, c)| (k.element.symbol.clone(), k.isotope, *c)).collect();
    v.sort();
    json!(v)
}

pub fn outcomes(s: &str, ce: &ChemicalElements) -> Vec<Value> {
    let mut out = Vec::new();
    macro_rules! ep {
        ($e:expr, $it:expr) => {{
            let r = guarded(|| $e);
            out.push(match r {
                Ok(Ok(c)) => json!({"ok": $it(&c)}),
                Ok(Err(e)) => json!({"err": err_idx(e)}),
                Err(_) => json!("panic"),
            });
        }};
    }
    ep!(ChemicalComposition::parse(s), |c: &ChemicalComposition| canon(c.iter()));
    ep!(s.parse::<ChemicalComposition>(), |c: &ChemicalComposition| canon(c.iter()));
    ep!(parse_formula(s), |c: &ChemicalComposition| canon(c.iter()));
    ep!(parse_formula_with_table(s, &PERIODIC_TABLE), |c: &ChemicalComposition| canon(c.iter()));
    // parsed against the helper's OWN table, then read key by key through `get` / `[&key]` with EQUAL keys taken from the global
    // table (an equal key must find the entry, whichever table instance its element reference points into)
    ep!(ce.parse_formula(s), |c: &ChemicalComposition| {
        let mut v: Vec<(String, u16, i32)> = c.iter().map(|(k, n)| {
            let via_get = match PERIODIC_TABLE.get(k.element.symbol.as_str()) {
                Some(e) => { let g = chemical_elements::ElementSpecification::new(e, k.isotope); let a = c.get(&g); let b = c[&g]; if a == b { a } else { i32::MIN } }
                None => *n,
            };
            (k.element.symbol.clone(), k.isotope, via_get)
        }).collect();
        v.sort();
        json!(v)
    });
    ep!(s.parse::<ChemicalCompositionVec>(), |c: &ChemicalCompositionVec| canon(c.iter().map(|(k, v)| (k, v))));
    ep!(s.parse::<ChemicalCompositionMap>(), |c: &ChemicalCompositionMap| canon(c.iter()));
    ep!(ChemicalComposition::parse_with(s, &PERIODIC_TABLE), |c: &ChemicalComposition| canon(c.iter()));
    out
}

/// A conservative bound on every per-key total a formula-like string can denote:
/// (sum of all element counts, 1 for a missing one) x (product of all group counts). Strings whose bound does not
/// fit in i32 are outside the properties' quantifier ("digit runs are bounded so that arithmetic overflow is out of
/// scope") and are not generated.
pub fn overflow_risk(s: &str) -> bool {
    let cs: Vec<char> = s.chars().collect();
    let mut sum: f64 = 0.0;
    let mut prod: f64 = 1.0;
    let mut i = 0;
    let mut in_bracket = false;
    let mut terms = 0.0;
    while i < cs.len() {
        let c = cs[i];
        if c == '[' { in_bracket = true; i += 1; continue; }
        if c == ']' { in_bracket = false; i += 1; continue; }
        if c.is_numeric() && !in_bracket {
            let mut j = i;
            let mut v: f64 = 0.0;
            while j < cs.len() && cs[j].is_numeric() { v = v * 10.0 + cs[j].to_digit(10).unwrap_or(9) as f64; j += 1; }
            let after_group = i > 0 && cs[i - 1] == ')';
            if after_group { prod *= v.max(1.0); } else { sum += v; }
            i = j;
            continue;
        }
        if c.is_ascii_uppercase() { terms += 1.0; }
        i += 1;
    }
    (sum + terms + 1.0) * prod >= 2.0e9
}

/// compact line for the extracted driver: code points, then one outcome per distinct entry-point result
fn emit_compact(s: &str, ce: &ChemicalElements, out: &mut impl std::io::Write) {
    let outs = outcomes(s, ce);
    let same = outs.iter().all(|o| *o == outs[0]);
    let cps: Vec<String> = s.chars().map(|c| (c as u32).to_string()).collect();
    let enc = |o: &Value| -> String {
        if o == "panic" { return "P".to_string(); }
        if let Some(e) = o.get("err") { return format!("E{}", e); }
        let ents: Vec<String> = o["ok"].as_array().unwrap().iter().map(|t| {
            let sym: Vec<String> = t[0].as_str().unwrap().chars().map(|c| (c as u32).to_string()).collect();
            format!("{}:{}:{}", sym.join("."), t[1], t[2])
        }).collect();
        format!("O{}", ents.join(";"))
    };
    let list: Vec<String> = if same { vec![enc(&outs[0])] } else { outs.iter().map(enc).collect() };
    writeln!(out, "{}|{}", cps.join(","), list.join("|")).unwrap();
}

fn emit(id: usize, s: &str, ce: &ChemicalElements, ast: Option<Value>) {
    let outs = outcomes(s, ce);
    let same = outs.iter().all(|o| *o == outs[0]);
    let mut rec = json!({"id": id, "s": s, "n_entry": outs.len()});
    rec["outs"] = if same { json!([outs[0]]) } else { json!(outs) };
    if let Some(a) = ast { rec["ast"] = a; }
    println!("{}", rec);
}

// ---- grammar-directed generation ----
#[derive(Clone)]
pub enum Item { El(String, Option<String>, Option<String>), Gr(Vec<Item>, Option<String>) }

pub fn render(items: &[Item], out: &mut String) {
    for it in items {
        match it {
            Item::El(s, i, c) => { out.push_str(s); if let Some(d) = i { out.push('['); out.push_str(d); out.push(']'); } if let Some(d) = c { out.push_str(d); } }
            Item::Gr(b, c) => { out.push('('); render(b, out); out.push(')'); if let Some(d) = c { out.push_str(d); } }
        }
    }
}
pub fn ast_json(items: &[Item]) -> Value {
    Value::Array(items.iter().map(|it| match it {
        Item::El(s, i, c) => json!({"el": s, "iso": i, "cnt": c}),
        Item::Gr(b, c) => json!({"gr": ast_json(b), "cnt": c}),
    }).collect())
}

fn digits(rng: &mut Rng, max: u64) -> Option<String> {
    match rng.below(5) {
        0 => None,
        1 => Some(format!("{}", 1 + rng.below(9))),
        2 => Some(format!("0{}", rng.below(max))),            // leading zero
        3 => Some(format!("{}", rng.below(max))),
        _ => Some(format!("{}", rng.below(max.min(30)))),
    }
}

pub fn gen_items(rng: &mut Rng, syms: &[String], depth: u32, max_items: u64) -> Vec<Item> { gen_items_w(rng, syms, depth, max_items, false) }
pub fn gen_items_w(rng: &mut Rng, syms: &[String], depth: u32, max_items: u64, wild: bool) -> Vec<Item> {
    // keep every per-key total inside i32: deep nesting gets small counts (300 * 9^5 < 2^31 / 100)
    let (emax, gmax) = if depth >= 4 { (300, 9) } else { (5000, 20) };
    gen_items_c(rng, syms, depth, max_items, wild, emax, gmax)
}
fn gen_items_c(rng: &mut Rng, syms: &[String], depth: u32, max_items: u64, wild: bool, emax: u64, gmax: u64) -> Vec<Item> {
    let n = 1 + rng.below(max_items);
    let mut v = Vec::new();
    for _ in 0..n {
        if depth > 0 && rng.chance(1, 4) {
            let body = gen_items_c(rng, syms, depth - 1, 3, wild, emax, gmax);
            v.push(Item::Gr(body, digits(rng, gmax)));
        } else {
            // favour a small set so that keys repeat, but reach the whole table
            let sym = if rng.chance(2, 3) { rng.pick(&["C", "H", "O", "N", "S", "Cl", "Na", "H+", "Uuo", "Fe", "Br", "K"]).to_string() } else { rng.pick(syms).clone() };
            let e = &PERIODIC_TABLE[sym.as_str()];
            let iso = if rng.chance(1, 3) {
                let mut ks: Vec<u16> = e.isotopes.keys().copied().collect();
                ks.sort();
                let k = if wild && rng.chance(1, 3) { let lo = ks[0].saturating_sub(2) as u64; let hi = *ks.last().unwrap() as u64 + 2; (lo + rng.below(hi - lo + 1)) as u16 } else { *rng.pick(&ks) };
                Some(if rng.chance(1, 6) { format!("0{}", k) } else { format!("{}", k) })
            } else { None };
            v.push(Item::El(sym, iso, digits(rng, emax)));
        }
    }
    v
}

fn mutate(rng: &mut Rng, s: &str) -> String {
    let mut cs: Vec<char> = s.chars().collect();
    let junk = ['[', ']', '(', ')', ' ', '0', '9', 'x', 'Z', 'é', '٣', '²', '𝟚', '+', '-', '*', '.', 'l'];
    let k = 1 + rng.below(2);
    for _ in 0..k {
        let pos = rng.below(cs.len() as u64 + 1) as usize;
        match rng.below(5) {
            0 => { if !cs.is_empty() { cs.remove(pos.min(cs.len() - 1)); } }
            1 => cs.insert(pos, *rng.pick(&junk)),
            2 => { if !cs.is_empty() { let p = pos.min(cs.len() - 1); let c = cs[p]; cs.insert(p, c); } }
            3 => { if cs.len() >= 2 { let p = pos.min(cs.len() - 2); cs.swap(p, p + 1); } }
            _ => { if !cs.is_empty() { let p = pos.min(cs.len() - 1); cs[p] = *rng.pick(&junk); } }
        }
    }
    cs.into_iter().collect()
}

pub fn upper_syms() -> Vec<String> {
    let mut syms: Vec<String> = PERIODIC_TABLE.elements.keys().filter(|k| k.chars().next().map(|c| c.is_ascii_uppercase()).unwrap_or(false)).cloned().collect();
    syms.sort();
    syms
}

pub fn run(args: &[String]) {
    let mode = args.get(0).map(|s| s.as_str()).unwrap_or("exh");
    let seed: u64 = args.get(1).and_then(|s| s.parse().ok()).unwrap_or(0);
    let n: usize = args.get(2).and_then(|s| s.parse().ok()).unwrap_or(3);
    let ce = ChemicalElements::new();
    let syms = upper_syms();
    let mut rng = Rng::new(seed ^ 0xF0F0);
    match mode {
        "exhc" => {
            // seed 0: every string of length <= n over ALPHABET; seed k in 1..=14: the strings of
            // length exactly n that start with ALPHABET[k-1] (one shard).  Compact lines on stdout.
            let stdout = std::io::stdout();
            let mut out = std::io::BufWriter::with_capacity(1 << 20, stdout.lock());
            let a = ALPHABET.len();
            let (lens, first): (Vec<usize>, Option<usize>) =
                if seed == 0 { ((0..=n).collect(), None) } else { (vec![n], Some(seed as usize - 1)) };
            for len in lens {
                let free = if first.is_some() { len - 1 } else { len };
                let total = (a as u64).pow(free as u32);
                for mut code in 0..total {
                    let mut idx = vec![0usize; free];
                    for q in (0..free).rev() { idx[q] = (code % a as u64) as usize; code /= a as u64; }
                    let mut s = String::new();
                    if let Some(f) = first { s.push(ALPHABET[f]); }
                    for i in idx { s.push(ALPHABET[i]); }
                    emit_compact(&s, &ce, &mut out);
                }
            }
        }
        "exh" => {
            // every string of length <= n over ALPHABET
            let mut id = 0usize;
            let mut idx: Vec<usize> = Vec::new();
            loop {
                let s: String = idx.iter().map(|i| ALPHABET[*i]).collect();
                emit(id, &s, &ce, None);
                id += 1;
                // next
                let mut p = idx.len();
                loop {
                    if p == 0 { idx = vec![0; idx.len() + 1]; break; }
                    p -= 1;
                    if idx[p] + 1 < ALPHABET.len() { idx[p] += 1; for q in p + 1..idx.len() { idx[q] = 0; } break; }
                }
                if idx.len() > n { break; }
            }
        }
        "keys" => {
            // every key of the table (pseudo-elements such as "e*" and "H+" included) as a whole formula, as a group body,
            // counted, bracketed and next to an ordinary symbol: a lookup that trusts the text instead of the grammar shows here
            let mut keys: Vec<String> = ce.periodic_table.elements.keys().cloned().collect();
            keys.sort();
            let mut id = 0;
            for k in keys.iter() {
                for s in [k.clone(), format!("({})2", k), format!("H2({})", k), format!("{}2", k), format!("{}H", k), format!("C{}", k),
                          format!("{}[1]", k), format!("C[13]({})3", k), k.to_lowercase(), k.to_uppercase()] {
                    emit(id, &s, &ce, None);
                    id += 1;
                }
                // the key with one letter replaced by a non-ASCII character whose Unicode case mapping lands on that ASCII letter
                // (KELVIN SIGN -> k, LONG S -> S, dotless i -> I, I with dot -> i + combining dot) or by a look-alike (fullwidth, Cyrillic,
                // sharp s, fi ligature): none of these is a table symbol, whatever a case-insensitive or normalising lookup would make of them
                let twins: [(char, &[char]); 8] = [('K', &['\u{212A}']), ('k', &['\u{212A}']), ('S', &['\u{017F}', '\u{1E9E}']), ('s', &['\u{017F}', '\u{00DF}']),
                                                   ('I', &['\u{0131}', '\u{0130}']), ('i', &['\u{0131}', '\u{0130}', '\u{FB01}']),
                                                   ('H', &['\u{FF28}', '\u{041D}']), ('C', &['\u{FF23}', '\u{0421}'])];
                let chars: Vec<char> = k.chars().collect();
                for (pos, ch) in chars.iter().enumerate() {
                    for (a, reps) in twins.iter() {
                        if ch == a {
                            for r in reps.iter() {
                                let t: String = chars.iter().enumerate().map(|(q, c)| if q == pos { *r } else { *c }).collect();
                                for s in [t.clone(), format!("({})3", t), format!("H2O{}[247]2", t)] { emit(id, &s, &ce, None); id += 1; }
                            }
                        }
                    }
                }
            }
        }
        "rand" => {
            for id in 0..n {
                let s = if rng.chance(1, 4) {
                    let len = rng.below(12);
                    let extra = ['²', '𝟚', 'N', 'a', '+', '1', '3', '9'];
                    (0..len).map(|_| if rng.chance(4, 5) { *rng.pick(&ALPHABET) } else { *rng.pick(&extra) }).collect()
                } else {
                    let items = gen_items_w(&mut rng, &syms, 3, 5, true);
                    let mut s = String::new();
                    render(&items, &mut s);
                    if rng.chance(1, 3) { s } else { mutate(&mut rng, &s) }
                };
                let s = if overflow_risk(&s) { "H2O".to_string() } else { s };
                emit(id, &s, &ce, None);
            }
        }
        _ => {
            for id in 0..n {
                let depth = if rng.chance(1, 10) { 5 } else { 3 };
                let items = if id % 20 == 7 {
                    // a tower: groups nested 6..=14 deep (the random grammar rarely goes beyond 3), small counts so that totals stay in i32
                    let d = 6 + rng.below(9);
                    let mut cur = gen_items_c(&mut rng, &syms, 0, 3, false, 50, 2);
                    for _ in 0..d {
                        let mult = rng.pick(&[None, Some("1"), Some("2"), Some("02"), Some("2"), Some("1")]).map(|t| t.to_string());
                        let mut layer = vec![Item::Gr(cur, mult)];
                        if rng.chance(1, 3) { layer.extend(gen_items_c(&mut rng, &syms, 0, 2, false, 50, 2)); }
                        if rng.chance(1, 4) { layer.rotate_right(1); }
                        cur = layer;
                    }
                    cur
                } else { gen_items(&mut rng, &syms, depth, 6) };
                let mut s = String::new();
                render(&items, &mut s);
                emit(id, &s, &ce, Some(ast_json(&items)));
            }
        }
    }
}
