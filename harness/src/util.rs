//! Shared helpers: PRNG (one splitmix64 state per run), hex-float printing, panic capture.
use std::panic::{catch_unwind, AssertUnwindSafe};

#[derive(Clone)]
pub struct Rng(pub u64);

impl Rng {
    pub fn new(seed: u64) -> Rng {
        Rng(seed.wrapping_mul(0x9E3779B97F4A7C15).wrapping_add(0x1234_5678_9ABC_DEF1))
    }
    pub fn next(&mut self) -> u64 {
        self.0 = self.0.wrapping_add(0x9E3779B97F4A7C15);
        let mut z = self.0;
        z = (z ^ (z >> 30)).wrapping_mul(0xBF58476D1CE4E5B9);
        z = (z ^ (z >> 27)).wrapping_mul(0x94D049BB133111EB);
        z ^ (z >> 31)
    }
    /// uniform in 0..n (n > 0)
    pub fn below(&mut self, n: u64) -> u64 {
        self.next() % n
    }
    pub fn range(&mut self, lo: i64, hi: i64) -> i64 {
        lo + (self.below((hi - lo + 1) as u64) as i64)
    }
    pub fn unit(&mut self) -> f64 {
        (self.next() >> 11) as f64 / (1u64 << 53) as f64
    }
    pub fn pick<'a, T>(&mut self, xs: &'a [T]) -> &'a T {
        &xs[self.below(xs.len() as u64) as usize]
    }
    pub fn chance(&mut self, num: u64, den: u64) -> bool {
        self.below(den) < num
    }
}

/// Exact hexadecimal rendering of a binary64 value, in the syntax Coq's `%float` literals accept.
pub fn hexf(x: f64) -> String {
    if x.is_nan() {
        return "nan".to_string();
    }
    if x.is_infinite() {
        return if x > 0.0 { "infinity".to_string() } else { "neg_infinity".to_string() };
    }
    let bits = x.to_bits();
    let sign = if bits >> 63 == 1 { "-" } else { "" };
    let exp = ((bits >> 52) & 0x7ff) as i64;
    let man = bits & ((1u64 << 52) - 1);
    if exp == 0 {
        if man == 0 {
            return format!("{}0x0p+0", sign);
        }
        return format!("{}0x0.{:013x}p-1022", sign, man);
    }
    format!("{}0x1.{:013x}p{:+}", sign, man, exp - 1023)
}

pub fn hexfs(xs: &[f64]) -> Vec<String> {
    xs.iter().map(|x| hexf(*x)).collect()
}

/// Run `f`, mapping a panic to Err(message). The default panic hook is silenced by main().
pub fn guarded<T>(f: impl FnOnce() -> T) -> Result<T, String> {
    match catch_unwind(AssertUnwindSafe(f)) {
        Ok(v) => Ok(v),
        Err(e) => {
            let msg = if let Some(s) = e.downcast_ref::<&str>() {
                s.to_string()
            } else if let Some(s) = e.downcast_ref::<String>() {
                s.clone()
            } else {
                "panic".to_string()
            };
            Err(msg)
        }
    }
}
