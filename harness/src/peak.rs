//! C13 / C14: run TheoreticalIsotopicPattern operations on generated patterns.
use crate::util::{guarded, hexf, Rng};
use chemical_elements::isotopic_pattern::{
    isotopic_variants, poisson_approximation, Peak, TheoreticalIsotopicPattern,
};
use chemical_elements::{ChemicalComposition, PROTON};
use serde_json::{json, Value};

fn pk(p: &Peak) -> Value {
    json!([hexf(p.mz), hexf(p.intensity)])
}
fn tipv(t: &TheoreticalIsotopicPattern) -> Value {
    json!({"peaks": t.peaks.iter().map(pk).collect::<Vec<_>>(), "origin": hexf(t.origin)})
}

/// pattern families: 0 Poisson output, 1 BRAIN output, 2 random positive, 3 dyadic (sum exactly 1),
/// 4 dyadic unnormalised, 5 random normalised by the crate
fn gen_pattern(rng: &mut Rng, fam: u64) -> (Vec<Peak>, f64) {
    match fam {
        0 => {
            let mass = 50.0 + rng.unit() * 20000.0;
            let n = 1 + rng.below(40) as usize;
            let z = *rng.pick(&[1, 2, 3, -1, 0]);
            let p = poisson_approximation(mass, n, z);
            (p, mass)
        }
        1 => {
            let forms = ["C6H12O6", "C34H53N7O15", "C254H377N65O75S6", "C100H200", "H2O", "C50H71N13O12", "K20", "Mg30Si4O12"];
            let f = *rng.pick(&forms);
            let c = ChemicalComposition::parse(f).unwrap();
            let n = 1 + rng.below(30) as i32;
            let p = isotopic_variants(c, n, *rng.pick(&[0, 1, 2]), PROTON);
            let o = p.first().map(|q| q.mz).unwrap_or(0.0);
            (p, o)
        }
        2 | 5 => {
            let n = 1 + rng.below(64) as usize;
            let base = 100.0 + rng.unit() * 3000.0;
            let mut v = Vec::new();
            for i in 0..n {
                let inten = (rng.unit() + 1e-6) * (10f64).powi(rng.range(-6, 8) as i32);
                v.push(Peak { mz: base + i as f64 * 1.0033548378, intensity: inten });
            }
            if fam == 5 {
                let t = TheoreticalIsotopicPattern::new(v, base).normalize();
                (t.peaks, base)
            } else {
                (v, base)
            }
        }
        _ => {
            // dyadic: numerators over 2^k so that every partial sum is exact
            let n = 1 + rng.below(12) as usize;
            let k = 10 + rng.below(10) as i32;
            let den = (2f64).powi(k);
            let total_units = 1u64 << k;
            let mut left = total_units;
            let mut v = Vec::new();
            let base = 500.0 + rng.below(1000) as f64 * 0.5;
            for i in 0..n {
                let take = if i + 1 == n && fam == 3 { left } else { 1 + rng.below((left / 2).max(1)) };
                let take = take.min(left.max(1));
                left = left.saturating_sub(take);
                v.push(Peak { mz: base + i as f64, intensity: take as f64 / den * if fam == 4 { 8.0 } else { 1.0 } });
                if left == 0 && fam == 3 {
                    break;
                }
            }
            (v, base)
        }
    }
}

fn cums(p: &[Peak]) -> Vec<f64> {
    let mut t = 0.0;
    p.iter().map(|q| { t += q.intensity; t }).collect()
}

/// thresholds placed relative to the cumulative sums / intensities of this very pattern
fn gen_threshold(rng: &mut Rng, p: &[Peak], on_cum: bool) -> f64 {
    let c = if on_cum { cums(p) } else { p.iter().map(|q| q.intensity).collect() };
    let total = *cums(p).last().unwrap_or(&1.0);
    match rng.below(9) {
        0 => 0.0,
        1 => -0.25,
        2 => total,
        3 => total * 1.5 + 1.0,
        4 => *rng.pick(&c),                                  // exactly on a cumulative sum / an intensity
        5 => { let x = *rng.pick(&c); f64::from_bits(x.to_bits() + 1) } // one ulp above
        6 => { let x = *rng.pick(&c); f64::from_bits(x.to_bits().saturating_sub(1)) } // one ulp below
        7 => c[0] * 0.5,                                     // below the first
        _ => { let i = rng.below(c.len() as u64) as usize; let lo = if i == 0 { 0.0 } else { c[i - 1] }; lo + (c[i] - lo) * rng.unit() }
    }
}

pub fn run(args: &[String]) {
    let seed: u64 = args.get(0).and_then(|s| s.parse().ok()).unwrap_or(0);
    let n: usize = args.get(1).and_then(|s| s.parse().ok()).unwrap_or(500);
    let mut rng = Rng::new(seed ^ 0xC13);
    let group = args.get(2).map(|s| s.as_str()).unwrap_or("all");
    let ops: Vec<&str> = match group {
        "c13" => vec!["normalize", "scale_by", "shift", "clone_shifted", "truncate_after", "ignore_below",
                      "truncate_after", "ignore_below", "total"],
        "c14" => vec!["fused", "fused", "clone_drop_last", "slice", "incremental", "eq", "fused", "incremental"],
        _ => vec!["normalize", "scale_by", "shift", "clone_shifted", "truncate_after", "ignore_below",
                  "truncate_after", "ignore_below", "fused", "fused", "clone_drop_last", "slice", "incremental", "eq", "total"],
    };
    for id in 0..n {
        let fam = rng.below(6);
        let (pat, origin) = gen_pattern(&mut rng, fam);
        let op = ops[id % ops.len()];
        let t = TheoreticalIsotopicPattern::new(pat.clone(), origin);
        let mut rec = json!({"id": id, "op": op, "fam": fam, "pat": pat.iter().map(pk).collect::<Vec<_>>(), "origin": hexf(origin)});
        let out: Value = match op {
            "normalize" => { rec["args"] = json!([]); guarded(|| tipv(&t.clone().normalize())).unwrap_or(json!("panic")) }
            "total" => { rec["args"] = json!([]); guarded(|| json!(hexf(t.total()))).unwrap_or(json!("panic")) }
            "scale_by" => {
                let f = *rng.pick(&[0.5, 2.0, 3.0, 0.1, 1e6, 1.0, 0.0, 7.25, -2.0, 8.691694759794e-311, 1e-300]);
                rec["args"] = json!([hexf(f)]);
                guarded(|| tipv(&t.clone().scale_by(f))).unwrap_or(json!("panic"))
            }
            "shift" | "clone_shifted" => {
                // ordinary offsets, and ones far below the m/z scale (a "nothing to move" shortcut must not swallow them)
                let off = match rng.below(8) {
                    0 => (rng.unit() - 0.5) * 2e-9,
                    1 => *rng.pick(&[5e-10, -5e-10, 1e-12, -3e-11, 1e-6, 0.000549, -1.007276, 0.0]),
                    2 => (rng.unit() - 0.5) * 2e-5,
                    _ => (rng.unit() - 0.5) * 2000.0,
                };
                rec["args"] = json!([hexf(off)]);
                if op == "shift" { guarded(|| tipv(&t.clone().shift(off))).unwrap_or(json!("panic")) }
                else { guarded(|| tipv(&t.clone_shifted(off))).unwrap_or(json!("panic")) }
            }
            "truncate_after" => {
                let th = gen_threshold(&mut rng, &pat, true);
                rec["args"] = json!([hexf(th)]);
                guarded(|| tipv(&t.clone().truncate_after(th))).unwrap_or(json!("panic"))
            }
            "ignore_below" => {
                let th = gen_threshold(&mut rng, &pat, false);
                rec["args"] = json!([hexf(th)]);
                guarded(|| tipv(&t.clone().ignore_below(th))).unwrap_or(json!("panic"))
            }
            "fused" => {
                let t1 = if rng.chance(1, 2) { gen_threshold(&mut rng, &pat, true) } else { rng.unit() * 1.2 };
                let t2 = if rng.chance(1, 3) { *rng.pick(&[0.0, 0.001, 0.01, 0.05, 0.25, 0.4, 0.5, 1.0, 1.2, -0.5, 0.0]) } else { rng.unit() * rng.unit() * 1.2 };
                let sh = (rng.unit() - 0.5) * 2000.0;
                rec["args"] = json!([hexf(t1), hexf(t2), hexf(sh)]);
                let step = guarded(|| tipv(&t.clone().truncate_after(t1).ignore_below(t2).shift(sh))).unwrap_or(json!("panic"));
                rec["stepwise"] = step;
                guarded(|| tipv(&t.clone().truncate_after_ignore_below_shift_normalize(t1, t2, sh))).unwrap_or(json!("panic"))
            }
            "clone_drop_last" => { rec["args"] = json!([]); guarded(|| tipv(&t.clone_drop_last())).unwrap_or(json!("panic")) }
            "slice" => {
                let len = pat.len();
                let a = rng.below(len as u64 + 2) as usize;
                let b = rng.below(len as u64 + 2) as usize;
                let (a, b) = if rng.chance(4, 5) { (a.min(b), a.max(b)) } else { (a, b) };
                rec["args"] = json!([a, b]);
                guarded(|| tipv(&t.slice_normalized(a..b))).unwrap_or(json!("panic"))
            }
            "incremental" => {
                let th = if rng.chance(1, 2) { rng.unit() * 1.1 } else {
                    let nt = t.clone().normalize(); gen_threshold(&mut rng, &nt.peaks, true) };
                rec["args"] = json!([hexf(th)]);
                guarded(|| Value::Array(t.clone().incremental_truncation(th).map(|x| tipv(&x)).collect())).unwrap_or(json!("panic"))
            }
            "eq" => {
                // one time in three the whole pattern is scaled up by 2^20 (exact), so that the 1e-3 tolerance is far
                // below single-precision resolution of the intensities
                let scale = if rng.chance(1, 3) { 1048576.0 } else { 1.0 };
                let pat: Vec<Peak> = pat.iter().map(|p| Peak { mz: p.mz, intensity: p.intensity * scale }).collect();
                let t = TheoreticalIsotopicPattern::new(pat.clone(), origin);
                rec["pat"] = json!(pat.iter().map(pk).collect::<Vec<_>>());
                // b: same, prefix, perturbed within / beyond tolerance, empty, other pattern
                let mut b = pat.clone();
                let how = rng.below(7);
                match how {
                    0 => {}
                    1 => { b.truncate(rng.below(pat.len() as u64 + 1) as usize); }
                    2 => { b.clear(); }
                    3 => { if let Some(q) = b.last_mut() { q.mz += 0.0009; q.intensity += 0.0009; } }
                    4 => { let i = rng.below(b.len() as u64) as usize; b[i].mz += 0.0011; }
                    5 => { let i = rng.below(b.len() as u64) as usize; b[i].intensity -= 0.0011; }
                    _ => { b.push(Peak { mz: 1.0, intensity: 0.5 }); }
                }
                rec["b"] = json!(b.iter().map(pk).collect::<Vec<_>>());
                rec["args"] = json!([]);
                let tb = TheoreticalIsotopicPattern::new(b.clone(), origin);
                let r1 = guarded(|| t == tb);
                let r2 = guarded(|| tb == t);
                let r3 = guarded(|| t == b[..]);
                json!({"ab": r1.ok(), "ba": r2.ok(), "slice": r3.ok()})
            }
            _ => unreachable!(),
        };
        rec["out"] = out;
        println!("{}", rec);
    }
}
