//! Correspondence harness: runs the real crate (built from /repo's working tree) on generated
//! inputs and dumps what it observed as JSON lines. It judges nothing.
mod arith;
mod brain;
mod comp;
mod conv;
mod espec;
mod formula;
mod peak;
mod poisson;
mod render;
mod table;
mod util;

fn main() {
    std::panic::set_hook(Box::new(|_| {}));
    let args: Vec<String> = std::env::args().collect();
    let cmd = args.get(1).map(|s| s.as_str()).unwrap_or("");
    let rest: Vec<String> = args.iter().skip(2).cloned().collect();
    let _ = &rest;
    match cmd {
        "table" => table::run(),
        "peak" => peak::run(&rest),
        "comp" => comp::run(&rest),
        "arith" => arith::run(&rest),
        "brain" => brain::run(&rest),
        "conv" => conv::run(&rest),
        "espec" => espec::run(&rest),
        "render" => render::run(&rest),
        "formula" => formula::run(&rest),
        "poisson" => poisson::run(&rest),
        _ => {
            eprintln!("usage: ce_harness <table|...> [args]");
            std::process::exit(2);
        }
    }
}
