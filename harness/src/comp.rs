//! C02 / C06: lock-step operation histories on the four composition families.
use crate::util::{guarded, hexf, Rng};
use chemical_elements::{
    ChemicalComposition, ChemicalCompositionMap, ChemicalCompositionVec, ElementSpecification, PERIODIC_TABLE,
};
use serde_json::{json, Value};

type Key = ElementSpecification<'static>;
pub fn key(sym: &str, iso: u16) -> Key {
    ElementSpecification::new(&PERIODIC_TABLE[sym], iso)
}

// the last five collide pairwise on (element_number, most_abundant_isotope): Ar/Ca (40), H/H+ (1), Tc/Pm (0)
pub const POOL: [(&str, u16); 14] = [("C", 0), ("C", 12), ("C", 13), ("H", 0), ("H", 2), ("O", 0), ("Cl", 0), ("N", 0), ("Cl", 37), ("Ar", 0), ("Ca", 0), ("H+", 0), ("Tc", 0), ("Pm", 0)];
pub const PROBES: [&str; 18] = ["C", "C[13]", "H", "H[2]", "O", "Cl", "X", "", "é", "C[", "C[13", "C[99]", "N", "c", "C[013]", "Ac[0]", "Cl[37]", "C[0]"];

#[derive(Clone)]
pub enum R {
    V(ChemicalCompositionVec<'static>),
    M(ChemicalCompositionMap<'static>),
    E(ChemicalComposition<'static>),
}

#[derive(Clone, Debug)]
pub enum Op {
    Set(usize, i32), Inc(usize, i32), IdxSet(usize, i32), IdxAdd(usize, i32),
    IdxStrSet(String, i32), IncStr(String, i32), GetStrMutSet(String, i32),
    Add(u8, usize), Sub(u8, usize), Mul(u8, i32), Neg(u8), IterMut(i32, i32), Clone(usize),
    IntoMap, IntoVec, FromPairs(Vec<(usize, i32)>), Fmass, Nop,
}

impl Op {
    pub fn json(&self) -> Value {
        match self {
            Op::Set(k, n) => json!(["Set", k, n]), Op::Inc(k, n) => json!(["Inc", k, n]),
            Op::IdxSet(k, n) => json!(["IdxSet", k, n]), Op::IdxAdd(k, n) => json!(["IdxAdd", k, n]),
            Op::IdxStrSet(s, n) => json!(["IdxStrSet", s, n]), Op::IncStr(s, n) => json!(["IncStr", s, n]),
            Op::GetStrMutSet(s, n) => json!(["GetStrMutSet", s, n]),
            Op::Add(f, q) => json!(["Add", f, q]), Op::Sub(f, q) => json!(["Sub", f, q]),
            Op::Mul(f, n) => json!(["Mul", f, n]), Op::Neg(f) => json!(["Neg", f]),
            Op::IterMut(a, b) => json!(["IterMut", a, b]), Op::Clone(q) => json!(["Clone", q]),
            Op::IntoMap => json!(["IntoMap"]), Op::IntoVec => json!(["IntoVec"]),
            Op::FromPairs(l) => json!(["FromPairs", l]), Op::Fmass => json!(["Fmass"]), Op::Nop => json!(["Nop"]),
        }
    }
}

fn pk(i: usize) -> Key { key(POOL[i].0, POOL[i].1) }

macro_rules! arith_forms {
    ($a:expr, $b:expr, $form:expr, $op:tt, $opa:tt) => {{
        match $form {
            0 => { let r = &*$a $op $b; *$a = r; }
            1 => { let r = $a.clone() $op $b; *$a = r; }
            2 => { *$a $opa $b; }
            _ => { let mut x = &mut *$a; x $opa $b; }
        }
    }};
}
macro_rules! mul_forms {
    ($a:expr, $n:expr, $form:expr) => {{
        match $form {
            0 => { let r = &*$a * $n; *$a = r; }
            1 => { let r = $a.clone() * $n; *$a = r; }
            2 => { *$a *= $n; }
            _ => { let mut x = &mut *$a; x *= $n; }
        }
    }};
}

pub fn apply(regs: &mut Vec<R>, r: usize, op: &Op) {
    let other: Option<R> = match op { Op::Add(_, q) | Op::Sub(_, q) | Op::Clone(q) => Some(regs[*q].clone()), _ => None };
    let target = &mut regs[r];
    match (target, op) {
        (R::V(c), Op::Set(k, n)) => c.set(pk(*k), *n),
        (R::M(c), Op::Set(k, n)) => c.set(pk(*k), *n),
        (R::E(c), Op::Set(k, n)) => c.set(pk(*k), *n),
        (R::V(c), Op::Inc(k, n)) => c.inc(pk(*k), *n),
        (R::M(c), Op::Inc(k, n)) => c.inc(pk(*k), *n),
        (R::E(c), Op::Inc(k, n)) => c.inc(pk(*k), *n),
        (R::V(c), Op::IdxSet(k, n)) => c[&pk(*k)] = *n,
        (R::M(c), Op::IdxSet(k, n)) => c[&pk(*k)] = *n,
        (R::E(c), Op::IdxSet(k, n)) => c[&pk(*k)] = *n,
        (R::V(c), Op::IdxAdd(k, n)) => c[&pk(*k)] += *n,
        (R::M(c), Op::IdxAdd(k, n)) => c[&pk(*k)] += *n,
        (R::E(c), Op::IdxAdd(k, n)) => c[&pk(*k)] += *n,
        (R::V(c), Op::IdxStrSet(s, n)) => c[s.as_str()] = *n,
        (R::M(c), Op::IdxStrSet(s, n)) => c[s.as_str()] = *n,
        (R::E(c), Op::IdxStrSet(s, n)) => c[s.as_str()] = *n,
        (R::V(c), Op::IncStr(s, n)) => c[s.as_str()] += *n,
        (R::M(c), Op::IncStr(s, n)) => c.inc_str(s, *n),
        (R::E(c), Op::IncStr(s, n)) => c.inc_str(s, *n),
        (R::M(c), Op::GetStrMutSet(s, n)) => { if let Some(x) = c.get_str_mut(s) { *x = *n; } }
        (_, Op::GetStrMutSet(_, _)) => {}
        (R::V(c), Op::Add(f, _)) => { if let Some(R::V(b)) = &other { arith_forms!(c, b, *f, +, +=) } }
        (R::M(c), Op::Add(f, _)) => { if let Some(R::M(b)) = &other { arith_forms!(c, b, *f, +, +=) } }
        (R::E(c), Op::Add(f, _)) => { if let Some(R::E(b)) = &other { arith_forms!(c, b, *f, +, +=) } }
        (R::V(c), Op::Sub(f, _)) => { if let Some(R::V(b)) = &other { arith_forms!(c, b, *f, -, -=) } }
        (R::M(c), Op::Sub(f, _)) => { if let Some(R::M(b)) = &other { arith_forms!(c, b, *f, -, -=) } }
        (R::E(c), Op::Sub(f, _)) => { if let Some(R::E(b)) = &other { arith_forms!(c, b, *f, -, -=) } }
        (R::V(c), Op::Mul(f, n)) => mul_forms!(c, *n, *f),
        (R::M(c), Op::Mul(f, n)) => mul_forms!(c, *n, *f),
        (R::E(c), Op::Mul(f, n)) => mul_forms!(c, *n, *f),
        (R::V(c), Op::Neg(f)) => { let r = if *f == 0 { -c.clone() } else { -&*c }; *c = r; }
        (R::M(c), Op::Neg(f)) => { let r = if *f == 0 { -c.clone() } else { -&*c }; *c = r; }
        (R::E(c), Op::Neg(f)) => { let r = if *f == 0 { -c.clone() } else { -&*c }; *c = r; }
        (R::V(c), Op::IterMut(a, b)) => { for (_, v) in c.iter_mut() { *v = *v * *a + *b; } }
        (R::M(c), Op::IterMut(a, b)) => { for (_, v) in c.iter_mut() { *v = *v * *a + *b; } }
        (R::E(c), Op::IterMut(a, b)) => { for (_, v) in c.iter_mut() { *v = *v * *a + *b; } }
        // `Clone::clone_from` (into a target that may hold a cached mass) for odd source registers, plain `clone` otherwise
        (R::V(c), Op::Clone(q)) if *q % 2 == 1 => { if let Some(R::V(o)) = &other { c.clone_from(o); } }
        (R::M(c), Op::Clone(q)) if *q % 2 == 1 => { if let Some(R::M(o)) = &other { c.clone_from(o); } }
        (R::E(c), Op::Clone(q)) if *q % 2 == 1 => { if let Some(R::E(o)) = &other { c.clone_from(o); } }
        (t, Op::Clone(_)) => { *t = other.unwrap(); }
        (R::V(c), Op::IntoMap) | (R::V(c), Op::IntoVec) => { let m: ChemicalCompositionMap = c.clone().into(); *c = m.into(); }
        (R::M(c), Op::IntoMap) | (R::M(c), Op::IntoVec) => { let v: ChemicalCompositionVec = c.clone().into(); *c = v.into(); }
        (R::E(c), Op::IntoMap) => { let x = c.clone().into_map(); *c = x; }
        (R::E(c), Op::IntoVec) => { let x = c.clone().into_vec(); *c = x; }
        (R::V(c), Op::FromPairs(l)) => { *c = l.iter().map(|(k, n)| (pk(*k), *n)).collect(); }
        (R::M(c), Op::FromPairs(l)) => { *c = l.iter().map(|(k, n)| (pk(*k), *n)).collect(); }
        (R::E(c), Op::FromPairs(l)) => {
            let is_map = matches!(c, ChemicalComposition::Map(_));
            let x: ChemicalComposition = l.iter().map(|(k, n)| (pk(*k), *n)).collect::<Vec<_>>().into();
            *c = if is_map { x.into_map() } else { x };
        }
        (R::V(c), Op::Fmass) => { c.fmass(); }
        (R::M(c), Op::Fmass) => { c.fmass(); }
        (R::E(c), Op::Fmass) => { c.fmass(); }
        (_, Op::Nop) => {}
    }
}

macro_rules! observe_one {
    ($c:expr, $eqs:expr) => {{
        let c = $c;
        let mut ints: Vec<i64> = vec![c.len() as i64, c.is_empty() as i64];
        for i in 0..POOL.len() {
            let k = pk(i);
            ints.push(guarded(|| c.get(&k) as i64).unwrap_or(-999999));
            ints.push(guarded(|| c[&k] as i64).unwrap_or(-999999));
            ints.push(c.iter().any(|(kk, _)| *kk == k) as i64);
        }
        for s in PROBES.iter() {
            ints.push(guarded(|| c.get_str(s) as i64).unwrap_or(-999999));
            ints.push(guarded(|| c[*s] as i64).unwrap_or(-999999));
        }
        ints.extend($eqs);
        let disp = guarded(|| c.to_string()).unwrap_or_else(|_| "<panic>".to_string());
        let mass = guarded(|| c.mass()).unwrap_or(f64::NAN);
        let calc = guarded(|| c.calc_mass()).unwrap_or(f64::NAN);
        json!({"ints": ints, "disp": disp, "cached": c.has_mass_cached(), "mass": hexf(mass), "calc": hexf(calc)})
    }};
}

pub fn observe(regs: &Vec<R>, r: usize) -> Value {
    match &regs[r] {
        R::V(c) => { let eqs: Vec<i64> = regs.iter().map(|q| if let R::V(x) = q { (c == x) as i64 } else { -1 }).collect(); observe_one!(c, eqs) }
        R::M(c) => { let eqs: Vec<i64> = regs.iter().map(|q| if let R::M(x) = q { (c == x) as i64 } else { -1 }).collect(); observe_one!(c, eqs) }
        R::E(c) => { let eqs: Vec<i64> = regs.iter().map(|q| if let R::E(x) = q { (c == x) as i64 } else { -1 }).collect(); observe_one!(c, eqs) }
    }
}

fn gen_count(rng: &mut Rng) -> i32 {
    match rng.below(8) { 0 => 0, 1 => -(rng.below(20) as i32) - 1, 2 => 1, _ => rng.below(200) as i32 }
}

pub fn gen_op(rng: &mut Rng, mode: &str, bound: &mut [i64; 3], r: usize) -> Op {
    let strs_ok = ["C", "C[13]", "H", "H[2]", "O", "Cl", "N", "Cl[37]", "C[12]", "Ca", "Ar", "H+", "Pm"];
    let strs_bad = ["X", "", "é", "C[", "C[13", "C[99]", "c", "C[0]"];
    let q = rng.below(3) as usize;
    let w = rng.below(100);
    let op = if mode == "c02" {
        match w {
            0..=19 => Op::Fmass,
            20..=27 => Op::Set(rng.below(POOL.len() as u64) as usize, gen_count(rng)),
            28..=33 => Op::Inc(rng.below(POOL.len() as u64) as usize, gen_count(rng)),
            34..=38 => Op::IdxSet(rng.below(POOL.len() as u64) as usize, gen_count(rng)),
            39..=42 => Op::IdxAdd(rng.below(POOL.len() as u64) as usize, gen_count(rng)),
            43..=46 => Op::IdxStrSet(rng.pick(&strs_ok).to_string(), gen_count(rng)),
            47..=51 => Op::IncStr(rng.pick(&strs_ok).to_string(), gen_count(rng)),
            52..=54 => Op::GetStrMutSet(rng.pick(&strs_ok).to_string(), gen_count(rng)),
            55..=62 => Op::Add(rng.below(4) as u8, q),
            63..=69 => Op::Sub(rng.below(4) as u8, q),
            70..=79 => Op::Mul(rng.below(4) as u8, rng.range(-3, 4) as i32),
            80..=84 => Op::Neg(rng.below(2) as u8),
            85..=89 => Op::IterMut(*rng.pick(&[1, 2, -1, 3]), *rng.pick(&[0, 1, -2])),
            90..=93 => Op::Clone(q),
            94..=95 => Op::IntoMap,
            96..=97 => Op::IntoVec,
            98 => Op::IncStr(rng.pick(&strs_bad).to_string(), 1),
            _ => Op::FromPairs((0..rng.below(5)).map(|_| (rng.below(POOL.len() as u64) as usize, gen_count(rng))).collect()),
        }
    } else {
        match w {
            0..=11 => Op::Set(rng.below(POOL.len() as u64) as usize, gen_count(rng)),
            12..=21 => Op::Inc(rng.below(POOL.len() as u64) as usize, gen_count(rng)),
            22..=27 => Op::IdxSet(rng.below(POOL.len() as u64) as usize, gen_count(rng)),
            28..=33 => Op::IdxAdd(rng.below(POOL.len() as u64) as usize, gen_count(rng)),
            34..=41 => Op::IdxStrSet(rng.pick(&strs_ok).to_string(), gen_count(rng)),
            42..=51 => Op::IncStr(rng.pick(&strs_ok).to_string(), gen_count(rng)),
            52..=55 => Op::IncStr(rng.pick(&strs_bad).to_string(), gen_count(rng)),
            56..=57 => Op::IdxStrSet(rng.pick(&strs_bad).to_string(), gen_count(rng)),
            58..=63 => Op::Add(rng.below(4) as u8, q),
            64..=69 => Op::Sub(rng.below(4) as u8, q),
            70..=74 => Op::Mul(rng.below(4) as u8, rng.range(-2, 3) as i32),
            75..=77 => Op::Neg(rng.below(2) as u8),
            78..=80 => Op::IterMut(*rng.pick(&[1, 2, -1]), *rng.pick(&[0, 1, -2])),
            81..=83 => Op::Clone(q),
            84..=86 => Op::IntoMap,
            87..=89 => Op::IntoVec,
            90..=96 => Op::Fmass,
            _ => Op::FromPairs((0..rng.below(6)).map(|_| (rng.below(POOL.len() as u64) as usize, gen_count(rng))).collect()),
        }
    };
    // keep |counts| far from i32 overflow
    let nb = match &op {
        Op::Set(_, n) | Op::Inc(_, n) | Op::IdxSet(_, n) | Op::IdxAdd(_, n) | Op::IdxStrSet(_, n) | Op::IncStr(_, n)
        | Op::GetStrMutSet(_, n) => bound[r] + (*n as i64).abs(),
        Op::Add(_, q) | Op::Sub(_, q) => bound[r] + bound[*q],
        Op::Mul(_, n) => bound[r] * (*n as i64).abs().max(1),
        Op::IterMut(a, b) => bound[r] * (*a as i64).abs() + (*b as i64).abs(),
        Op::Clone(q) => bound[*q],
        Op::FromPairs(l) => l.iter().map(|(_, n)| (*n as i64).abs()).sum(),
        _ => bound[r],
    };
    if nb > 50_000_000 {
        bound[r] = 300;
        return Op::FromPairs(vec![(0, 100), (3, 200)]);
    }
    bound[r] = nb;
    op
}

pub fn run(args: &[String]) {
    let seed: u64 = args.get(0).and_then(|s| s.parse().ok()).unwrap_or(0);
    let n: usize = args.get(1).and_then(|s| s.parse().ok()).unwrap_or(100);
    let mode = args.get(2).map(|s| s.as_str()).unwrap_or("c06").to_string();
    let maxlen: u64 = args.get(3).and_then(|s| s.parse().ok()).unwrap_or(20);
    let mut rng = Rng::new(seed ^ 0xC02C06);
    println!("{}", json!({"pool": POOL.iter().map(|(s, i)| json!([s, i])).collect::<Vec<_>>(), "probes": PROBES}));
    for id in 0..n {
        let len = 1 + rng.below(maxlen) as usize;
        let mut bound = [0i64; 3];
        let mut ops: Vec<(usize, Op)> = Vec::new();
        for _ in 0..len {
            // half of the time the register that has just cached its mass is the next one written to
            // (a stale cache shows only in fmass -> write -> read on the same value)
            let after_fmass = match ops.last() { Some((pr, Op::Fmass)) if rng.chance(3, 4) => Some(*pr), _ => None };
            let r = after_fmass.unwrap_or_else(|| rng.below(3) as usize);
            let mut op = gen_op(&mut rng, &mode, &mut bound, r);
            if after_fmass.is_some() && rng.chance(2, 3) {
                // ... through one of the in-place writers, on one of a few keys that is likely to be present already
                let k = ops.iter().rev().find_map(|(pr, o)| match o {
                    Op::Set(k, n) | Op::Inc(k, n) | Op::IdxSet(k, n) | Op::IdxAdd(k, n) if *pr == r && *n != 0 => Some(*k), _ => None })
                    .unwrap_or_else(|| rng.below(6) as usize);
                let n = 1 + rng.below(9) as i32;
                bound[r] += n as i64;
                let text = if POOL[k].1 == 0 { POOL[k].0.to_string() } else { format!("{}[{}]", POOL[k].0, POOL[k].1) };
                op = match rng.below(7) { 0 => Op::IdxSet(k, n), 1 => Op::IdxAdd(k, n), 2 => Op::IdxStrSet(text, n), 3 => Op::Inc(k, n),
                                          4 => Op::IncStr(text, n),
                                          5 if mode == "c02" => Op::GetStrMutSet(POOL[k].0.to_string(), n),   // map-only API: not a lock-step operation
                                          5 => Op::IncStr(POOL[k].0.to_string(), n), _ => Op::Clone(1) };
            }
            ops.push((r, op));
        }
        let mut fams = serde_json::Map::new();
        for fam in ["VecDirect", "MapDirect", "EnumVec", "EnumMap"] {
            let mut regs: Vec<R> = (0..3).map(|_| match fam {
                "VecDirect" => R::V(ChemicalCompositionVec::new()),
                "MapDirect" => R::M(ChemicalCompositionMap::new()),
                "EnumVec" => R::E(ChemicalComposition::new()),
                _ => R::E(ChemicalComposition::new().into_map()),
            }).collect();
            let mut obs = Vec::new();
            for (r, op) in ops.iter() {
                let res = guarded(|| apply(&mut regs, *r, op));
                let mut o = observe(&regs, *r);
                o["p"] = json!(res.is_err() as i32);
                obs.push(o);
            }
            fams.insert(fam.to_string(), Value::Array(obs));
        }
        println!("{}", json!({"id": id, "ops": ops.iter().map(|(r, o)| json!([r, o.json()])).collect::<Vec<_>>(), "fams": fams}));
    }
}
