//! C04: operator forms over every pairing of representations, and the pair constructors.
use crate::comp::{key, POOL};
use crate::util::{guarded, Rng};
use chemical_elements::{ChemicalComposition, ChemicalCompositionMap, ChemicalCompositionVec, ElementSpecification};
use serde_json::{json, Value};

type Key = ElementSpecification<'static>;
fn pk(i: usize) -> Key { key(POOL[i].0, POOL[i].1) }
fn pairs(l: &[(usize, i32)]) -> Vec<(Key, i32)> { l.iter().map(|(k, n)| (pk(*k), *n)).collect() }

fn gets_v(c: &ChemicalCompositionVec) -> Vec<i64> { (0..POOL.len()).map(|i| c.get(&pk(i)) as i64).collect() }
fn gets_m(c: &ChemicalCompositionMap) -> Vec<i64> { (0..POOL.len()).map(|i| c.get(&pk(i)) as i64).collect() }
fn gets_e(c: &ChemicalComposition) -> Vec<i64> { (0..POOL.len()).map(|i| c.get(&pk(i)) as i64).collect() }

macro_rules! forms {
    ($a:expr, $b:expr, $kind:expr, $form:expr, $n:expr, $gets_a:ident) => {{
        // returns (result gets, left operand after (None when consumed / in place))
        let mut a = $a;
        match ($kind, $form) {
            (0, 0) => { let r = &a + $b; ($gets_a(&r), Some($gets_a(&a))) }
            (0, 1) => { let r = a.clone() + $b; ($gets_a(&r), Some($gets_a(&a))) }
            (0, 2) => { a += $b; ($gets_a(&a), None) }
            (0, _) => { { let mut x = &mut a; x += $b; } ($gets_a(&a), None) }
            (1, 0) => { let r = &a - $b; ($gets_a(&r), Some($gets_a(&a))) }
            (1, 1) => { let r = a.clone() - $b; ($gets_a(&r), Some($gets_a(&a))) }
            (1, 2) => { a -= $b; ($gets_a(&a), None) }
            (1, _) => { { let mut x = &mut a; x -= $b; } ($gets_a(&a), None) }
            (2, 0) => { let r = &a * $n; ($gets_a(&r), Some($gets_a(&a))) }
            (2, 1) => { let r = a.clone() * $n; ($gets_a(&r), Some($gets_a(&a))) }
            (2, 2) => { a *= $n; ($gets_a(&a), None) }
            (2, _) => { { let mut x = &mut a; x *= $n; } ($gets_a(&a), None) }
            (_, 0) => { let r = -&a; ($gets_a(&r), Some($gets_a(&a))) }
            (_, _) => { let keep = a.clone(); let r = -a; ($gets_a(&r), Some($gets_a(&keep))) }
        }
    }};
}

fn build_e(p: &[(usize, i32)], map: bool) -> ChemicalComposition<'static> {
    let c: ChemicalComposition = pairs(p).into();
    if map { c.into_map() } else { c }
}

pub fn run(args: &[String]) {
    let seed: u64 = args.get(0).and_then(|s| s.parse().ok()).unwrap_or(0);
    let n: usize = args.get(1).and_then(|s| s.parse().ok()).unwrap_or(200);
    let mut rng = Rng::new(seed ^ 0xC04);
    println!("{}", json!({"pool": POOL.iter().map(|(s, i)| json!([s, i])).collect::<Vec<_>>()}));
    let mut id = 0usize;
    let gen_pairs = |rng: &mut Rng| -> Vec<(usize, i32)> {
        let len = rng.below(7) as usize;
        (0..len).map(|_| (rng.below(POOL.len() as u64) as usize,
                          match rng.below(6) { 0 => 0, 1 => -(rng.below(250_000) as i32), 2 => rng.below(250_000) as i32, _ => rng.range(-30, 60) as i32 })).collect()
    };
    for _ in 0..n {
        let pa = gen_pairs(&mut rng);
        let pb = gen_pairs(&mut rng);
        let sc: i32 = match rng.below(5) { 0 => 0, 1 => -1, 2 => rng.range(-1000, 1000) as i32, _ => rng.range(-5, 7) as i32 };
        // every pairing of the four concrete forms x every operator form
        for ta in 0..4u8 {
            for tb in 0..4u8 {
                let kind = rng.below(4) as u8;
                let form = if kind == 3 { rng.below(2) as u8 } else { rng.below(4) as u8 };
                let res = guarded(|| {
                    let bv: ChemicalCompositionVec = pairs(&pb).into_iter().collect();
                    let bm: ChemicalCompositionMap = pairs(&pb).into_iter().collect();
                    let be = build_e(&pb, tb == 3);
                    macro_rules! with_b { ($a:expr, $g:ident) => { match tb {
                        0 => { let (r, a2) = forms!($a, &bv, kind, form, sc, $g); (r, a2, gets_v(&bv)) }
                        1 => { let (r, a2) = forms!($a, &bm, kind, form, sc, $g); (r, a2, gets_m(&bm)) }
                        _ => { let (r, a2) = forms!($a, &be, kind, form, sc, $g); (r, a2, gets_e(&be)) }
                    } } }
                    match ta {
                        0 => { let a: ChemicalCompositionVec = pairs(&pa).into_iter().collect(); with_b!(a, gets_v) }
                        1 => { let a: ChemicalCompositionMap = pairs(&pa).into_iter().collect(); with_b!(a, gets_m) }
                        _ => { let a = build_e(&pa, ta == 3); with_b!(a, gets_e) }
                    }
                });
                let out = match res { Ok((r, a2, b2)) => json!({"res": r, "a_after": a2, "b_after": b2}), Err(_) => json!("panic") };
                println!("{}", json!({"id": id, "op": "arith", "a": pa, "b": pb, "n": sc, "kind": kind, "form": form, "ta": ta, "tb": tb, "out": out}));
                id += 1;
            }
        }
        // constructors: type x constructor
        for t in 0..3u8 {
            for ctor in 0..5u8 {
                if ctor == 4 && t != 2 { continue; }
                let strs: Vec<(String, i32)> = pa.iter().map(|(k, n)| (pk(*k).to_string(), *n)).collect();
                let strs_ref: Vec<(&str, i32)> = strs.iter().map(|(s, n)| (s.as_str(), *n)).collect();
                let pp = pairs(&pa);
                let res = guarded(|| -> (Vec<i64>, usize) { match (t, ctor) {
                    (0, 0) => { let c = ChemicalCompositionVec::from(pp.clone()); (gets_v(&c), c.len()) }
                    (0, 1) => { let c: ChemicalCompositionVec = pp.clone().into_iter().collect(); (gets_v(&c), c.len()) }
                    (0, 2) => { let c = ChemicalCompositionVec::from(strs_ref.clone()); (gets_v(&c), c.len()) }
                    (0, _) => { let c: ChemicalCompositionVec = strs_ref.clone().into_iter().collect(); (gets_v(&c), c.len()) }
                    (1, 0) => { let c = ChemicalCompositionMap::from(pp.clone()); (gets_m(&c), c.len()) }
                    (1, 1) => { let c: ChemicalCompositionMap = pp.clone().into_iter().collect(); (gets_m(&c), c.len()) }
                    (1, 2) => { let c = ChemicalCompositionMap::from(strs_ref.clone()); (gets_m(&c), c.len()) }
                    (1, _) => { let c: ChemicalCompositionMap = strs_ref.clone().into_iter().collect(); (gets_m(&c), c.len()) }
                    (_, 0) => { let c = ChemicalComposition::from(pp.clone()); (gets_e(&c), c.len()) }
                    (_, 1) => { let c: ChemicalComposition = pp.iter().map(|(k, v)| (k, v)).collect(); (gets_e(&c), c.len()) }
                    (_, 2) => { let c = ChemicalComposition::from(strs_ref.clone()); (gets_e(&c), c.len()) }
                    (_, 3) => { let c: ChemicalComposition = strs_ref.clone().into_iter().collect(); (gets_e(&c), c.len()) }
                    (_, _) => { let c: ChemicalComposition = pp.iter().map(|(k, v)| (k, v)).collect(); (gets_e(&c), c.len()) }
                } });
                let out: Value = match res { Ok((g, l)) => json!({"res": g, "len": l}), Err(_) => json!("panic") };
                println!("{}", json!({"id": id, "op": "ctor", "a": pa, "t": t, "ctor": ctor, "out": out}));
                id += 1;
            }
        }
    }
}
