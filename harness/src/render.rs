//! C07: Display / FromStr / serde round trips and canonical text, over insertion orders and representations.
use crate::util::{guarded, Rng};
use chemical_elements::{
    ChemicalComposition, ChemicalCompositionMap, ChemicalCompositionVec, ElementSpecification, FormulaParserError, PERIODIC_TABLE,
};
use serde_json::{json, Value};

type Key = ElementSpecification<'static>;

fn canon<'a, I: Iterator<Item = (&'a ElementSpecification<'a>, &'a i32)>>(it: I) -> Value {
    let mut v: Vec<(String, u16, i32)> = it.map(|(k, c)| (k.element.symbol.clone(), k.isotope, *c)).collect();
    v.sort();
    json!(v)
}
fn outc<T>(r: Result<Result<T, FormulaParserError>, String>, f: impl Fn(&T) -> Value) -> Value {
    match r { Ok(Ok(c)) => json!({"ok": f(&c)}), Ok(Err(e)) => json!({"err": e as u32}), Err(_) => json!("panic") }
}

pub fn run(args: &[String]) {
    let seed: u64 = args.get(0).and_then(|s| s.parse().ok()).unwrap_or(0);
    let n: usize = args.get(1).and_then(|s| s.parse().ok()).unwrap_or(100);
    let mut rng = Rng::new(seed ^ 0xC07);
    let mut keys: Vec<(String, u16)> = Vec::new();
    let mut syms: Vec<&String> = PERIODIC_TABLE.elements.keys().collect();
    syms.sort();
    for s in &syms {
        let e = &PERIODIC_TABLE[s.as_str()];
        keys.push(((*s).clone(), 0));
        let mut is: Vec<u16> = e.isotopes.keys().copied().filter(|i| *i != 0).collect();
        is.sort();
        for i in is { keys.push(((*s).clone(), i)); }
    }
    let common: Vec<(String, u16)> = vec![("C".into(), 0), ("C".into(), 12), ("C".into(), 13), ("H".into(), 0), ("H".into(), 2), ("O".into(), 0), ("N".into(), 0),
                                          ("Cl".into(), 0), ("Cl".into(), 37), ("Na".into(), 0), ("H+".into(), 0), ("Ca".into(), 0), ("Co".into(), 0), ("Cu".into(), 63)];
    for id in 0..n {
        let k = if id == 0 { 0 } else { 1 + rng.below(6) as usize };
        let mut ents: Vec<(String, u16, i32)> = Vec::new();
        if id == 1 { ents = vec![("e*".into(), 0, 2), ("C".into(), 0, 1)]; }
        // hydrogen without carbon next to symbols on both sides of "H" in the alphabet; carbon without hydrogen; only labelled C / H
        if id == 2 { ents = vec![("H".into(), 0, 3), ("B".into(), 0, 1)]; }
        if id == 3 { ents = vec![("H".into(), 0, 2), ("Ar".into(), 0, 1), ("O".into(), 0, 4), ("He".into(), 0, 1)]; }
        if id == 4 { ents = vec![("C".into(), 0, 2), ("Br".into(), 0, 1), ("Ca".into(), 0, 1)]; }
        if id == 5 { ents = vec![("C".into(), 13, 2), ("H".into(), 2, 1), ("B".into(), 0, 1), ("Cl".into(), 0, 2)]; }
        let k = if (2..=5).contains(&id) { ents.len() } else { k };
        let k = if id == 1 { 2 } else { k };
        while ents.len() < k {
            let (s, i) = if rng.chance(2, 3) { rng.pick(&common).clone() } else { rng.pick(&keys).clone() };
            if ents.iter().any(|(a, b, _)| *a == s && *b == i) { continue; }
            let c = match rng.below(4) { 0 => 1, 1 => 1 + rng.below(1_000_000) as i32, _ => 1 + rng.below(40) as i32 };
            ents.push((s, i, c));
        }
        // insertion orders: all rotations and a few shuffles
        let mut orders: Vec<Vec<usize>> = Vec::new();
        let base: Vec<usize> = (0..k).collect();
        for r in 0..k.max(1) { let mut o = base.clone(); if k > 0 { o.rotate_left(r); } orders.push(o); }
        for _ in 0..4 { let mut o = base.clone(); for j in (1..k).rev() { let t = rng.below(j as u64 + 1) as usize; o.swap(j, t); } orders.push(o); }
        { let mut o = base.clone(); o.reverse(); orders.push(o); }
        let mut texts: Vec<String> = Vec::new();
        for o in &orders {
            let pairs: Vec<(Key, i32)> = o.iter().map(|j| (ElementSpecification::new(&PERIODIC_TABLE[ents[*j].0.as_str()], ents[*j].1), ents[*j].2)).collect();
            let v: ChemicalCompositionVec = pairs.clone().into_iter().collect();
            let m: ChemicalCompositionMap = pairs.clone().into_iter().collect();
            let ev: ChemicalComposition = pairs.clone().into();
            let em: ChemicalComposition = ev.clone().into_map();
            for t in [guarded(|| v.to_string()), guarded(|| m.to_string()), guarded(|| ev.to_string()), guarded(|| em.to_string())] {
                let t = t.unwrap_or_else(|_| "<panic>".into());
                if !texts.contains(&t) { texts.push(t); }
            }
        }
        let text = texts[0].clone();
        let back = vec![
            outc(guarded(|| text.parse::<ChemicalCompositionVec>()), |c| canon(c.iter().map(|(k, v)| (k, v)))),
            outc(guarded(|| text.parse::<ChemicalCompositionMap>()), |c| canon(c.iter())),
            outc(guarded(|| text.parse::<ChemicalComposition>()), |c| canon(c.iter())),
        ];
        // serde: the JSON form is the text; Vec and Map deserialize, the enum only serializes
        let pairs: Vec<(Key, i32)> = ents.iter().map(|(s, i, c)| (ElementSpecification::new(&PERIODIC_TABLE[s.as_str()], *i), *c)).collect();
        let v: ChemicalCompositionVec = pairs.clone().into_iter().collect();
        let m: ChemicalCompositionMap = pairs.clone().into_iter().collect();
        let e: ChemicalComposition = pairs.clone().into();
        let jv = guarded(|| serde_json::to_string(&v).unwrap()).unwrap_or_else(|_| "<panic>".into());
        let jm = guarded(|| serde_json::to_string(&m).unwrap()).unwrap_or_else(|_| "<panic>".into());
        let je = guarded(|| serde_json::to_string(&e).unwrap()).unwrap_or_else(|_| "<panic>".into());
        let dv = match guarded(|| serde_json::from_str::<ChemicalCompositionVec>(&jv)) { Ok(Ok(c)) => json!({"ok": canon(c.iter().map(|(k, v)| (k, v)))}), Ok(Err(_)) => json!({"err": 9}), Err(_) => json!("panic") };
        let dm = match guarded(|| serde_json::from_str::<ChemicalCompositionMap>(&jm)) { Ok(Ok(c)) => json!({"ok": canon(c.iter())}), Ok(Err(_)) => json!({"err": 9}), Err(_) => json!("panic") };
        // "parses back to an EQUAL composition": the crate's own `==`, against an original whose mass cache is populated (equality is
        // about keys and counts, not about what happens to be cached); null where the text does not parse
        let eqs: Vec<Value> = {
            let (mut v2, mut m2, mut e2) = (v.clone(), m.clone(), e.clone());
            let mut em2 = e.clone().into_map();
            let _ = guarded(|| { v2.fmass(); m2.fmass(); e2.fmass(); em2.fmass(); });
            let b = |r: Result<bool, ()>| match r { Ok(x) => json!(x), Err(_) => Value::Null };
            vec![b(text.parse::<ChemicalCompositionVec>().map(|c| c == v2 && v2 == c).map_err(|_| ())),
                 b(text.parse::<ChemicalCompositionMap>().map(|c| c == m2 && m2 == c).map_err(|_| ())),
                 b(text.parse::<ChemicalComposition>().map(|c| c == e2 && e2 == c && c == em2 && em2 == c).map_err(|_| ())),
                 b(serde_json::from_str::<ChemicalCompositionVec>(&jv).map(|c| c == v2).map_err(|_| ())),
                 b(serde_json::from_str::<ChemicalCompositionMap>(&jm).map(|c| c == m2).map_err(|_| ()))]
        };
        let mut sorted = ents.clone();
        sorted.sort();
        println!("{}", json!({"id": id, "ents": sorted, "texts": texts, "back": back, "json": [jv, jm, je], "de": [dv, dm], "orders": orders.len(), "eq": eqs}));
    }
}
